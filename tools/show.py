#!/usr/bin/env python3
"""Summarise a replay file."""
import json,sys
s=json.load(open(sys.argv[1]))
w=s['world']
print('check',s['check'],'baud',w['baud'],'end_us',w['end_us'],'oracle',s['oracle'],'fault_deadline',w.get('fault_deadline_us'))
for i,st in enumerate(w['stations']):
    if not st['plan']: continue
    print(' st%d'%i,{k:v for k,v in st.items() if k not in('apps','stale_rx','watchdog_ms','min_tsdr','retry')}, 'stale' if st['stale_rx'] else '')
    for a in st['apps']:
        if isinstance(a,dict) and 'Dp' in a:
            d=a['Dp']; print('     Dp slots',d['slots'],'user',d['user'],'operate_at',d['operate_at_us'])
            for p in d['peripherals']: print('        per',{k:(v if not isinstance(v,list) else 'len%d'%len(v)) for k,v in p.items()})
        else: print('     app',a)
for i,x in enumerate(w['slaves']):
    if x['power']: print(' slave%d'%i,{k:(v if not isinstance(v,list) or k=='power' else 'len%d'%len(v)) for k,v in x.items()})
if w.get('adversary'): print(' adv',{k:(v if k!='script' else 'len%d'%len(v)) for k,v in w['adversary'].items()})
for f in s['faults']: print(' fault',f)
if s.get('expect'): print(' expect',s['expect']['oracle'],s['expect']['sig'],s['expect']['t_us'],s['expect']['detail'][:400])
