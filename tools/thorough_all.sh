#!/bin/bash
# Thorough tier of every check, built once at the start (so that /repo may be patched by other
# experiments afterwards).  For `vp run`: writes to ./thorough-out/ of the snapshot.
#   tools/thorough_all.sh [seed] [checks...]
cd "$(dirname "$0")/.." || exit 2
seed=${1:-1}; shift
checks=${@:-C10 C16 C18 C02 C01 C03 C04 C05 C06 C07 C08 C11 C12 C13 C14 C15}
export CARGO_NET_OFFLINE=true
# exploratory runs while /repo is being patched by a matrix: build against a clean scratch worktree
# of the same commit instead (never used for registered checks or committed evidence)
if [ -n "$PBSIM_REPO" ]; then sed -i "s#path = \"/repo\"#path = \"$PBSIM_REPO\"#" sim/Cargo.toml; fi
(cd sim && cargo build --release --offline && cargo build --profile noassert --offline) > build.log 2>&1 || { echo "build failed"; tail build.log; exit 2; }
mkdir -p thorough-out; cp known_findings.json thorough-out/
cp sim/target/release/pbsim thorough-out/pbsim; cp sim/target/noassert/pbsim thorough-out/pbsim-noassert
echo "built $(date)"
for c in $checks; do
  t0=$(date +%s)
  thorough-out/pbsim check $c --tier thorough --seed $seed --out thorough-out > thorough-out/$c.log 2>&1; rc=$?
  rc2=-
  case " C01 C02 C05 C06 C11 C12 C13 C15 " in *" $c "*)
    thorough-out/pbsim-noassert check $c --tier thorough --seed $seed --out thorough-out --variant noassert --runs-div 4 > thorough-out/$c.noassert.log 2>&1; rc2=$?;;
  esac
  echo "$c seed=$seed exit=$rc noassert=$rc2 $(( $(date +%s) - t0 ))s $(tail -1 thorough-out/$c.log | cut -c1-160)"
done
echo finished
