#!/bin/bash
# Sensitivity I: every "fix:" commit of /repo reverse-applied on its own (working tree only),
# quick tier of the checks that should need it.  Writes seeded/REVERTS.tsv
cd /verif || exit 2
out=seeded/REVERTS.tsv; : > $out
while read id commit checks; do
  res=$(PBSIM_FAST=1 tools/try_revert.sh $commit $checks 2>&1 | grep -E "^C[0-9]+ exit=" | awk '{print $1":"$2}' | tr '\n' ' ')
  echo -e "$id\t$commit\t$res" | tee -a $out
done <<'LIST'
F1 8e3776a C02 C12 C06
F2 543e53d C05 C11
F3 f8438ff C05 C06
F4 d75e9be C14 C05
F11 f5c1915 C05 C14
F5 ce82229 C05 C07
F6 966fe9f C07 C08
F7 0cc7546 C10 C16
F10 32271eb C08 C04
F15 c7429fc C06 C13 C12
F14 ba45b32 C04
F16 9b273c6 C06 C15 C18
F17 fea10dd C12 C02
LIST
