#!/usr/bin/env python3
"""Regenerate /verif/MANIFEST.json from the table below (keeps the file valid at all times)."""
import json

NA = {
    "C09": "pure function of its input (telegram codec round trip): no schedule, clock, fault or interleaving for a simulator to decide; by-product only: the reference codec R1 cross-decodes every frame real code puts on the simulated bus (DESIGN.md section 6 C09)",
    "C17": "pure decoder/iterator over a byte string; the part that meets faults (malformed diagnostics replies reaching a running master with logging on) is exercised under C05 (DESIGN.md section 6 C17)",
    "C19": "the GSD parser is a pure function of its input text; no concurrency, time, I/O or multi-party behaviour for a simulator to control (DESIGN.md section 6 C19)",
    "C20": "PrmBuilder is a sequential in-memory data structure; no clock, I/O, fault or interleaving (DESIGN.md section 6 C20)",
}

# id -> (engine, level, design_ref, level text, level note, technique)
CHECKS = {
    "C01": ("ring", "exploration", "6 C01",
            "Seeded search over ring configurations (incl. HSA 126 with a station at 125) x poll schedules x join orders, graceful leaves and re-joins of the same station object (set_offline then set_online), no injected fault: 2..5 real FdlActiveStations on a byte-accurate exact-time bus; every transmission is judged by the token/authority monitor R2 (overlap, 33/11 bit idle times with 1 us tolerance, authority to transmit, PHY contract, R1 cross-decode). Sampling, not enumeration: a clean batch is evidence, not proof.",
            "Trusted: the bus/PHY stub, the reference codec R1 and the authority monitor; reaction-time assumption of DESIGN 5.1 (3P+44bit+2us<=Tslot); cold start together / join at a telegram boundary (DESIGN 5.2, 5.3); the un-synchronised claim race (a station going online on a bus that has just fallen silent) is recognised and excluded as the property says. Thorough tier: a quarter of the runs also against profirust built without debug assertions / overflow checks.",
            "deterministic simulation (discrete-event, seeded schedules) with a bus-trace authority monitor"),
    "C02": ("ring", "exploration", "6 C02",
            "Seeded search over station sets (incl. HSA-1, TS-1, address 0, two-station rings), cold starts, staged joins, graceful leaves and re-joins; a panic of a station counts (it never joins): by T0+B_conv every online station must be in the ring with LAS = online set and cyclic neighbours as NS/PS; from then on the same is checked after every poll and every token pass must follow ascending cyclic order for >= G+H+3 rotations.",
            "Trusted: bus/PHY stub; convergence bound B_conv and stability window of DESIGN 5.4; observation through is_in_ring()/inspect_token_ring() and the bus trace only.",
            "deterministic simulation (seeded population plans and poll schedules) with a convergence-then-stability oracle"),
    "C03": ("dp", "fault_enumeration", "6 C03",
            "Seeded search over DP configurations (1..3 peripherals, all option values) x fault plans (random storms of lost/damaged requests and replies; every fourth run a systematic placement of one or two faults at the n-th request / n-th reply for every n of the bring-up - drop, bit flip, truncation, slave reset, power cycle, silence, user diagnostics request, fault flags, a lost request followed by a stray short confirmation, a negative acknowledgement followed by a diagnostics reply that claims readiness; Byzantine replies of every shape, power cycles, fault flags, user diagnostics requests): a per-peripheral bring-up automaton driven only by requests on the wire (decoded by R1), replies actually delivered to the master and the master's events decides whether each Data_Exchange request was legal; every Set_Prm/Chk_Cfg/Slave_Diag request is compared byte by byte with what the configured options demand.",
            "Trusted: reference slave R5, R1, the automaton; 'asked to be re-parameterised' is read as a decision of the master (a Set_Prm on the wire), the weaker reading.",
            "deterministic simulation with fault injection; bring-up automaton on the wire as oracle"),
    "C04": ("dp", "fault_enumeration", "6 C04",
            "Seeded search with process-image lengths 0..244, user writes to pi_q at arbitrary instants, every reply shape, losses: shadow copies of every image kept by the harness; every Data_Exchange request must carry the shadow pi_q of that instant, pi_i must equal the shadow after every poll, DataExchanged iff a well-formed reply from the addressed peripheral was delivered; panics count.",
            "Trusted: shadow bookkeeping, R5, R1. RDL/RDH/NR count as error statuses (no update allowed).",
            "deterministic simulation with fault injection; shadow-copy (reference model) oracle"),
    "C07": ("dp", "fault_enumeration", "6 C07",
            "Fault phase (storms of drops/bit flips/truncations, the systematic single/double fault placement of C03, stray short confirmations, power cycles, Byzantine replies, fault flags, user calls; peers with delimiter-like payloads and non-canonical SD2 encoding) then a fault-free phase with conforming reference slaves: bounded liveness - within K = 4*(max_retry+3)+8 DP cycles every healthy peripheral is_running() again AND its reference slave is in Data_Exchange locked by this master (with Online and Configured reported if it had gone Offline), switched-off ones are !is_live(); a panic of the master counts.",
            "Trusted: R5 as the definition of a conforming slave incl. FCB retry detection; healthy = powered, matching ident/config/lengths, max_tsdr within the margin of DESIGN 5.1/5.8, watchdog satisfiable by the bus cycle.",
            "deterministic simulation with fault injection; bounded-liveness oracle after faults stop"),
    "C08": ("dp", "fault_enumeration", "6 C08",
            "Seeded search over loss patterns, retry limits 1..15, reply kinds and user calls: per destination the FCB/FCV sequence of consecutive acknowledged-service requests is checked (first after start-up/Offline = FCV0/FCB1; same bit => same request in the FDL sense and no acceptable reply in between; toggle with FCV=1 after an acceptable reply; <= 1+max_retry transmissions without any reply; Offline neither premature nor repeated; only Slave_Diag probes while offline).",
            "Trusted: R1, the call log. Replies the DP layer may reject are don't-care for toggle and retry count.",
            "deterministic simulation with fault injection; FCB/retry wire monitor"),
    "C14": ("dp", "fault_enumeration", "6 C14",
            "0..4 peripherals in Vec / sparse fixed storage, responsive/silent/faulty mixes, second master and second application (token-hold interruptions, global control mid-cycle): between two cycle_completed reports turns follow slot order, one request plus retransmissions per turn, no peripheral twice; event life-cycle automaton vs. is_live()/is_running() after every poll; every event needs its cause in that poll; DataExchanged <=> is_running() turns/stays true; hangs and panics count.",
            "Trusted: call log, events taken after every poll. Silent turns are not observable on the wire.",
            "deterministic simulation with fault injection; cycle/event accounting oracle"),
    "C06": ("ring", "fault_enumeration", "6 C06",
            "Ring worlds with a fault window: storms of dropped / bit-flipped / truncated / receiver-lost telegrams, collisions and noise, station crash (with and without restart, mid-transmission, right after a token to it), stalls, clock jumps, go-offline/online, partitions (a station deaf or mute for a while), constructed claim races, stale RX bytes; panics count. After the last disturbance the stations that are online must reach agreement within B_rec, crashed ones must be in nobody's LAS, no collision and cyclic token order afterwards, stability as in C02; a station that switches itself offline must have consumed two telegrams with its own source address.",
            "Trusted: bus/PHY stub, fault injector, bound B_rec of DESIGN 5.4; DESIGN 5.6 for self-offline.",
            "deterministic simulation with fault injection; recovery-within-bound oracle"),
    "C13": ("ring", "exploration", "6 C13",
            "Rings of 2..5 stations with applications of every appetite (never / sometimes / bursts / always), request kinds with and without reply, peers that answer, time out or die in the middle of their answer, TTR down to the builder minimum: every application request after the first of a token visit must start before previous token receipt + TTR (+ one poll period); in a stable ring the inter-receipt time of every station is bounded by TTR_max + one message cycle and GAP poll per station; a token that does not come back at all violates the same bound; at most one GAP poll per token visit outside the scan that follows a claim; a station with an always-ready application sends at least once per visit.",
            "Trusted: wire times of token telegrams as the earliest reference of the station; the first visit after going online is exempt (no previous receipt); local clocks start at >= 0.",
            "deterministic simulation (seeded schedules and application programs); hold-time and rotation monitor"),
    "C15": ("ring", "exploration", "6 C15",
            "Rings of 1..3 stations with 0..3 applications each (scripted traffic generators, LiveList), peers that answer correctly, late, with foreign addresses, with requests or tokens, or not at all: the call log of the FdlApplication callbacks is checked against the call model R7 (asked only while holding the token - by the bus trace or by the station's own consumed token telegram - and with nothing outstanding; reply or time-out only to the requester, at most one; delivered reply admissible; round-robin order; nobody asked after all declined; no message cycle after the hold time except the first of a visit).",
            "Trusted: call-log probe around every application, token holder derived from token telegrams on the bus.",
            "deterministic simulation (seeded schedules and application programs); application call model as oracle"),
    "C11": ("adv", "fault_enumeration", "6 C11",
            "One real station against the semi-cooperative adversary node (plays predecessor, successor, stranger, invalid addresses, answers or ignores GAP polls and token passes, stays silent for sub-slot / slot / time-out lengths, sends garbage), plus rings of 3..5 real stations with crashes biased to the highest / lowest address: every transmission the station starts without being asked must be justified (token from the predecessor registered at that moment, second offer of a stranger, never while listening, never after it gave its token up on hearing another station, or a claim after its silence time-out); token from the predecessor + silent bus => it transmits within 3P+33bit; after its own pass: retransmission no earlier than one slot time, at most two and only if not a single byte reached the station since the previous attempt, then the silent successor is removed and the token goes to the next station of the list (or to itself); a heard successor is never removed.",
            "Trusted: adversary stub, consumption log of the harness PHY (what the station consumed per poll), registered predecessor sampled before/after the consuming poll and, when several telegrams were consumed in one poll, recomputed telegram by telegram with the list-of-active-stations model R3. The claim rule here ignores undecodable bytes (lenient; the exact rule is C01's).",
            "deterministic simulation with an adversarial peer; hand-over model as oracle"),
    "C12": ("adv+ring", "fault_enumeration", "6 C12",
            "Rings of 1..4 real stations (staged joins, leaves, slaves that answer status polls inside the GAPs) and single stations against the (mostly polite) adversary: every own FDL status request must target the open interval (TS,NS) below HSA as it is at that moment; one per token visit except the complete contiguous scan after a claim; >= G token visits between sweeps; every GAP address polled within gap size + G + 3 visits; a ready/in-ring answer makes the replier the destination of the next token. Status replies of real stations: only to a request addressed to them that they consumed last, to the requester, within the slot time when the bus stays silent; 'ready' and 'in ring' only if, since the station last went online (set_offline/set_online cycles included), it has claimed the token or its list of active stations was verified by the operational two-rotation model R3 over the token passes it consumed; 'ready' only to its registered predecessor, 'in ring' only if in the ring before, not 'not ready' when in the ring or after three identical rotations when asked by the predecessor.",
            "Trusted: R3/R4 models, consumption log; visit / sweep accounting restarts after collisions, garbage or tokens offered while holding (rules are judged in calm periods).",
            "deterministic simulation (real rings and adversarial peer); GAP model and status-reply model as oracles"),
    "C05": ("adv+dp+ring", "fault_enumeration", "6 C05",
            "Everything at once, with a logger that formats every record at Trace and debug assertions / overflow checks on: the adversary node (all telegram shapes, own address, addresses > 125, garbage, truncated and concatenated frames) against a station alone or with DpMaster (0..3 peripherals), LiveList, DpScanner and traffic applications through poll()/poll_multi(); DP worlds with storms, Byzantine slaves (every reply shape incl. malformed extended diagnostics), power cycles, user calls; faulty rings with crashes, stalls, clock jumps in both directions, stale RX bytes, early-TX-done PHY, noise. Oracle: no panic (message + location), no hang (worker watchdog, re-check alone with 3x limit), PHY contract honoured.",
            "Trusted: catch_unwind + panic hook, wall-clock watchdog of the driver. Not generated: set_passive/enter_stop/enter_clear (todo!()), parameter values the builder rejects, changing the application list while online (DESIGN 5.7). Known finding F12 (reset_address with a request in flight) is generated in the thorough tier only.",
            "deterministic simulation with fault injection; panic / hang / PHY-contract oracle"),
    "C10": ("rx", "fault_enumeration", "6 C10",
            "Frames of every kind and length (incl. the non-canonical SD2 forms) are sent over a byte-timed link and damaged in flight (every single-bit error and byte substitution at each position class, two-bit errors, truncation, noise, structured 68 LE LEr 68 headers (LE at both ends of 4..249 and up to 255) with random bodies, concatenation); the receiver is polled at random instants so that the decoder sees every prefix length. On every buffer the real Telegram::deserialize is compared with the maximally eager reference decoder R1: accept => same telegram and length; valid prefix => asks for more; invalid => reject, or ask for more only while shorter than the announced frame; verdicts never flip along a growing buffer; length inside the input; a single-byte-damaged data frame or SC is never a different telegram (delimiter substitution excepted, where the verdict must equal R1's); panics count.",
            "Trusted: R1 (written from the frame format), the damage injector. Token telegrams carry no checksum and are exempt from the 'different telegram' clause.",
            "deterministic simulation with fault injection on a byte stream; reference decoder as oracle"),
    "C16": ("rx", "exploration", "6 C16",
            "Sequences of valid telegrams (token, SC, SD1/SD2/SD3 of all lengths, back to back or separated) x byte availability (exact wire timing, bursts, whole frames) x receiver poll instants x choice of receive_telegram / receive_all_telegrams / poll_pending_received_bytes per poll, over the harness queue PHY and over the crate's SimulatorPhy; junk bursts that do not start like a telegram must be dropped at once. Every receive_data call of the helpers is judged against R1 on the same buffer (telegram delivered iff complete, exactly its length dropped, nothing dropped from an incomplete telegram, is_last_telegram iff nothing is buffered behind it, return values); at the end exactly the sent telegrams were delivered in order, once; a telegram that arrives on a buffer emptied by a discard is delivered.",
            "Trusted: R1, the spy wrapper around receive_data (the provided trait methods run unmodified on top of it).",
            "deterministic simulation (seeded chunking and poll schedules); stream model as oracle"),
    "C18": ("scan", "fault_enumeration", "6 C18",
            "One real station running LiveList and/or DpScanner (alone, with a second real master, with further applications) against a population of reference responders (answering with OK or any other response status) / DP slaves over addresses 0..125 that appear and disappear, with lost telegrams: only addresses 0..125 are probed, in sweep order; the event of every poll must equal what the live-set model R8 derives from the call log (an address is live iff it answered its last probe): Discovered/Found, Requery, Lost alternate per address; a probe that was answered or timed out is never repeated (the sweep advances); after the population has been quiet for two complete sweeps iter_stations() / the Found-minus-Lost set equals the answering stations (minus the scanner) with their ident numbers.",
            "Trusted: reference responders, call-log probe. Faults are losses only (the quantifier); corruption can fabricate a short confirmation, see DESIGN section 7 observation O2.",
            "deterministic simulation with fault injection (lost telegrams, population histories); live-set model as oracle"),
}

PENDING = ["C03", "C04", "C05", "C06", "C07", "C08", "C10", "C11", "C12", "C13", "C14", "C15", "C16", "C18"]

ENGINES = [
    {"name": "pbsim", "path": "sim/", "serves_properties": sorted(CHECKS.keys()),
     "kind_free_text": "Rust crate: discrete-event simulator (exact-time shared bus, harness PHY implementing profirust's ProfibusPhy, poll/user processes, reference DP slaves, adversary node), explicit serialisable fault plans (wire faults, partitions, crashes, stalls, clock jumps, Byzantine peers), reference models as oracles, seeded search in worker sub-processes, shrinker, replay files, known-findings filter, evidence writer. Links the real profirust from /repo as a cargo path dependency."},
]


def main():
    checks = []
    for cid in sorted(CHECKS):
        engine, level, ref, text, note, tech = CHECKS[cid]
        checks.append({
            "property_id": cid,
            "quick_cmd": f"./check {cid} quick",
            "thorough_cmd": f"./check {cid} thorough",
            "evidence_file": f"/verif/evidence/{cid}.json",
            "replay_cmd_template": "./check replay {path}",
            "engine": "pbsim/" + engine,
            "level_claimed": {"category": level, "text": text, "design_ref": "DESIGN.md section " + ref},
            "level_note": note,
            "technique": tech,
        })
    na = [{"property_id": k, "reason": v} for k, v in sorted(NA.items())]
    for p in PENDING:
        if p not in CHECKS:
            na.append({"property_id": p, "reason": "applicable (DESIGN.md section 6) but its check is still under construction in this commit - not claimed yet"})
    hooks_commits = []
    m = {
        "version": 1,
        "setup_cmd": "./check build",
        "hooks": {
            "guard": "verif-hooks (cargo feature) - not needed so far: no hook commit exists in /repo; all oracles use the pre-existing seams (poll(now,..), ProfibusPhy, FdlApplication) and public accessors",
            "enable": "checks link /repo as a cargo path dependency (features std, phy-simulator) and rebuild it from the working tree on every run; no cfg/feature is switched on",
            "baseline_off_cmd": "cd /repo && cargo test --workspace --no-fail-fast --offline",
            "source_commits": hooks_commits,
            "add_only": True,
        },
        "engines": ENGINES,
        "checks": checks,
        "not_applicable": na,
        "notes": "Exit codes of every command: 0 = property held on everything explored (KNOWN-FINDING lines possible), 1 = violation (VIOLATION line + replay file under /verif/replays), 2 = harness error. VERIF_SEED selects the base seed (default 1). The thorough tier of C01 C02 C05 C06 C11 C12 C13 C15 runs a second pass (a quarter of the runs) against profirust compiled without debug assertions and overflow checks (cargo profile noassert); its results are merged into the evidence under coverage.build_variants. Repairs of genuine defects in /repo are the 'fix:' commits listed in known_findings.json as status fixed.",
    }
    json.dump(m, open("/verif/MANIFEST.json", "w"), indent=1)
    print("wrote MANIFEST.json with", len(checks), "checks")


if __name__ == "__main__":
    main()
