#!/bin/bash
# Run seeded changes under /verif/seeded against their own property's check and related checks
# (quick tier, PBSIM_FAST: no minimisation) and record which checks catch them.
#   tools/seeded_matrix.sh [glob]      (default: all)   -> appends/updates seeded/MATRIX.tsv
cd /verif || exit 2
declare -A REL=( [C01]="C01 C02 C13" [C02]="C02 C12 C06" [C03]="C03 C04 C08" [C04]="C04 C14 C05 C07" [C05]="C05 C10" [C06]="C06 C02 C01" [C07]="C07 C08 C05" [C08]="C08 C07" [C10]="C10 C16 C05" [C11]="C11 C06" [C12]="C12 C06" [C13]="C13 C15 C12" [C14]="C14 C08" [C15]="C15 C13" [C16]="C16 C10" [C18]="C18" )
out=seeded/MATRIX.tsv
touch $out
for d in seeded/${1:-*}/; do
    name=$(basename $d); cid=${name%%-*}
    res=$(PBSIM_FAST=1 tools/try_mutant.sh $(realpath $d)/patch.diff ${CHECKS:-${REL[$cid]}} 2>&1 | grep -E "^C[0-9]+ exit=" | awk '{print $1":"$2}' | tr '\n' ' ')
    grep -v "^$name	" $out > $out.tmp; mv $out.tmp $out
    echo -e "$name\t$res" | tee -a $out
done
sort -o $out $out
