#!/bin/bash
# False-alarm hunt: run quick tiers with many base seeds using a *copy* of the simulator binary
# (so that the working tree can change meanwhile).  Output: /tmp/sweep/sweep.log
#   tools/seed_sweep.sh <from> <to> [checks...]
from=$1; to=$2; shift 2
checks=${@:-C01 C02 C03 C04 C05 C06 C07 C08 C10 C11 C12 C13 C14 C15 C16 C18}
cd /tmp/sweep || exit 2
for s in $(seq $from $to); do
  for c in $checks; do
    PBSIM_FAST=1 ./pbsim check $c --tier quick --seed $s --out /tmp/sweep > out.$c.$s.log 2>&1
    rc=$?
    echo "$c seed=$s exit=$rc $(grep -E '^run ' out.$c.$s.log | head -2 | cut -c1-200 | tr '\n' '|')" >> sweep.log
    [ $rc = 0 ] && rm -f out.$c.$s.log
  done
done
echo finished >> sweep.log
