#!/usr/bin/env python3
"""Write seeded/<dir>/meta.json from notes.md, the confirmation log and MATRIX.tsv."""
import json, os, glob, re, sys
root = '/verif/seeded'
confirm = {}
for log in sys.argv[1:]:
    for line in open(log):
        m = re.match(r'^(\S+): suite-with-patch: (\d+) passed (\d+) failed; demo-with-patch exit=(\d+).*demo-without-patch exit=(\d+)', line)
        if m:
            confirm[m.group(1)] = dict(suite_passed=int(m.group(2)), suite_failed=int(m.group(3)), demo_with_patch_exit=int(m.group(4)), demo_without_patch_exit=int(m.group(5)))
matrix = {}
if os.path.exists(root + '/MATRIX.tsv'):
    for line in open(root + '/MATRIX.tsv'):
        parts = line.rstrip('\n').split('\t')
        if len(parts) == 2:
            matrix[parts[0]] = dict(x.split(':exit=') for x in parts[1].split())
for d in sorted(glob.glob(root + '/C*-*/')):
    name = os.path.basename(d.rstrip('/'))
    prop = name.split('-')[0]
    notes = open(d + 'notes.md').read() if os.path.exists(d + 'notes.md') else ''
    def section(title):
        m = re.search(r'\*\*' + title + r'[^*]*\*\*[:\s]*(.*?)(?:\n\s*\n|\n\*\*|\Z)', notes, re.S)
        return ' '.join(m.group(1).split())[:900] if m else ''
    needs = section('What is needed to manifest') or section('Needs') or section('What it needs')
    change = section('Change') or section('What')
    c = confirm.get(name, {})
    mx = matrix.get(name, {})
    meta = {
        'property': prop,
        'name': name,
        'origin': 'independent sub-agent given only the property text and a scratch worktree of /repo',
        'change': change,
        'needs_to_manifest': needs,
        'confirmed_in_scratch_worktree': {
            'command': 'tools/confirm_mutant.sh <worktree at /repo HEAD> seeded/' + name,
            'existing_suite_with_patch': f"{c.get('suite_passed','?')} passed, {c.get('suite_failed','?')} failed (65 tests + 5 doc tests)",
            'demo_with_patch_exit': c.get('demo_with_patch_exit'),
            'demo_without_patch_exit': c.get('demo_without_patch_exit'),
        },
        'quick_checks_run_against_it': {k: ('VIOLATION' if v == '1' else 'pass' if v == '0' else 'harness error') for k, v in mx.items()},
        'caught_by': sorted(k for k, v in mx.items() if v == '1'),
    }
    json.dump(meta, open(d + 'meta.json', 'w'), indent=1)
    print(name, meta['caught_by'])
