#!/usr/bin/env python3
"""Write seeded/<dir>/meta.json from notes.md, the confirmation logs and MATRIX.tsv.

  tools/seed_meta.py <confirm log> [<confirm log> ...]     (later logs win)

A confirmation log line is what tools/confirm_mutant.sh prints for one seeded change:
  <dir name>: suite-with-patch: N passed M failed; demo-with-patch exit=X ...; demo-without-patch exit=Y ...
"""
import json, os, glob, re, sys, subprocess

root = '/verif/seeded'
confirm = {}
for log in sys.argv[1:]:
    for line in open(log):
        m = re.match(r'^(\S+): suite-with-patch: (\d+) passed (\d+) failed; demo-with-patch exit=(\d+).*demo-without-patch exit=(\d+)', line)
        if m:
            confirm[m.group(1)] = dict(log=os.path.basename(log), suite_passed=int(m.group(2)), suite_failed=int(m.group(3)),
                                       demo_with_patch_exit=int(m.group(4)), demo_without_patch_exit=int(m.group(5)))
matrix = {}
if os.path.exists(root + '/MATRIX.tsv'):
    for line in open(root + '/MATRIX.tsv'):
        parts = line.rstrip('\n').split('\t')
        if len(parts) == 2 and parts[1].strip():
            matrix[parts[0]] = dict(x.split(':exit=') for x in parts[1].split())
head = subprocess.run(['git', '-C', '/repo', 'log', '--format=%h', '-1'], capture_output=True, text=True).stdout.strip()

ROUND_NOTE = {
    '': 'round 1', 'r2': 'round 2', 'r3': 'round 3', 'r4': 'round 4', 'r5': 'round 5', 'r6': 'round 6', 'r7': 'round 7', 'r8': 'round 8', 'r9': 'round 9',
}
summary = []
for d in sorted(glob.glob(root + '/C*-*/')):
    name = os.path.basename(d.rstrip('/'))
    prop = name.split('-')[0]
    rnd = re.match(r'^C\d\d-(r\d)_', name)
    notes = open(d + 'notes.md').read() if os.path.exists(d + 'notes.md') else ''

    def section(*titles):
        for title in titles:
            m = re.search(r'(?:\*\*)?' + title + r'[^\n*:]*(?:\*\*)?[:\s]*(.*?)(?:\n\s*\n|\n\*\*|\n#|\Z)', notes, re.S | re.I)
            if m and m.group(1).strip():
                return ' '.join(m.group(1).split())[:900]
        return ''
    needs = section('What is needed to manifest', 'What it needs', 'Needs to manifest', 'Needs', 'Needed')
    change = section('Change', 'What it does', 'What')
    c = confirm.get(name, {})
    mx = matrix.get(name, {})
    manifests = c.get('demo_with_patch_exit') not in (0, None)
    caught = sorted(k for k, v in mx.items() if v == '1')
    meta = {
        'property': prop,
        'name': name,
        'origin': 'independent sub-agent (' + ROUND_NOTE.get(rnd.group(1) if rnd else '', 'round 1') + ') given only the text of the property and a scratch git worktree of /repo; nothing from /verif',
        'change': change,
        'needs_to_manifest': needs,
        'confirmed_in_scratch_worktree': {
            'at_repo_commit': head,
            'command': 'tools/confirm_mutant.sh <scratch worktree of /repo at that commit> seeded/' + name,
            'log': 'seeded/' + c.get('log', '?'),
            'existing_suite_with_patch': f"{c.get('suite_passed', '?')} passed, {c.get('suite_failed', '?')} failed (65 tests + 5 doc tests)",
            'demo_with_patch_exit': c.get('demo_with_patch_exit'),
            'demo_without_patch_exit': c.get('demo_without_patch_exit'),
        },
        'still_breaks_the_property_at_that_commit': manifests,
        'quick_checks_run_against_it': {k: ('VIOLATION' if v == '1' else 'pass' if v == '0' else 'harness error') for k, v in mx.items()},
        'caught_by': caught,
        'how_it_was_run': 'git -C /repo apply seeded/' + name + '/patch.diff; ./check <Cxx> quick (default seed, PBSIM_FAST=1: no minimisation); git -C /repo checkout -- .   (tools/seeded_matrix.sh)',
    }
    if not manifests:
        meta['note'] = 'the demonstration no longer fails with the patch at this commit: a later repair of /repo made the stack robust against this change (see notes.md / DESIGN 8.3); kept for the record'
    json.dump(meta, open(d + 'meta.json', 'w'), indent=1)
    summary.append((name, manifests, caught))
print(len(summary), 'seeded changes;', sum(1 for s in summary if s[1]), 'still manifest;',
      sum(1 for s in summary if s[1] and s[2]), 'of those caught by at least one quick check;',
      sum(1 for s in summary if s[1] and s[0].split('-')[0] in s[2]), 'by the check of their own property')
for s in summary:
    if s[1] and not s[2]:
        print('  not caught:', s[0])
    if s[1] and s[2] and s[0].split('-')[0] not in s[2]:
        print('  caught only by other checks:', s[0], s[2])
