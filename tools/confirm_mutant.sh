#!/bin/bash
# Confirm a seeded change in a scratch worktree: with the patch the existing suite passes and the
# demonstration fails; without the patch the demonstration passes.
#   tools/confirm_mutant.sh <worktree> <mutant-dir>
wt="$1"; md="$2"; name=$(basename "$md")
export CARGO_NET_OFFLINE=true
cd "$wt" || exit 2
git checkout -q -- src 2>/dev/null
demo=$(ls "$md"/demo_*.rs | head -1); dn=$(basename "$demo" .rs)
# the demo must not be part of the "existing suite" run
rm -f tests/demo_*.rs
git apply "$md/patch.diff" || { echo "$name: PATCH DOES NOT APPLY"; exit 1; }
suite=$(cargo test --workspace --no-fail-fast --offline 2>&1 | grep -E "^test result" | awk '{p+=$4; f+=$6} END {print p" passed "f" failed"}')
mkdir -p tests; cp "$demo" tests/
cargo test --offline --test "$dn" >/tmp/confirm_$name.with.log 2>&1; with=$?
git checkout -q -- src
cargo test --offline --test "$dn" >/tmp/confirm_$name.without.log 2>&1; without=$?
rm -f tests/demo_*.rs
echo "$name: suite-with-patch: $suite; demo-with-patch exit=$with (want !=0); demo-without-patch exit=$without (want 0)"
