#!/bin/bash
# Apply a patch to /repo, run the given checks (quick tier), and undo the patch again.
#   tools/try_mutant.sh <patch.diff> <Cxx> [<Cxx> ...]      (add -R as first arg to reverse-apply)
cd /verif || exit 2
rev=""
if [ "$1" = "-R" ]; then rev="-R"; shift; fi
patch="$1"; shift
git -C /repo apply $rev "$patch" || { echo "patch does not apply"; exit 2; }
mkdir -p /tmp/mutant-out; cp -f /verif/known_findings.json /tmp/mutant-out/ 2>/dev/null
for c in "$@"; do
    PBSIM_FAST="${PBSIM_FAST:-}" VERIF_SEED="${VERIF_SEED:-1}" ./check "$c" quick --out /tmp/mutant-out > /tmp/mutant-out/$c.log 2>&1
    echo "$c exit=$? $(grep -c '^VIOLATION' /tmp/mutant-out/$c.log) violation line(s): $(grep -m1 -B2 '^VIOLATION' /tmp/mutant-out/$c.log | head -1 | cut -c1-220)"
done
git -C /repo checkout -- .
# leave the simulator built against the restored tree
./check build >/dev/null
