#!/bin/bash
# Revert one commit of /repo in the working tree (not committed), run checks, restore.
#   tools/try_revert.sh <commit> <Cxx> ...
c="$1"; shift
git -C /repo show "$c" > /tmp/revert_$c.diff
exec /verif/tools/try_mutant.sh -R /tmp/revert_$c.diff "$@"
