//! R5 — reference DP-V0 slave / passive FDL responder (DESIGN §3).  A stub: profirust has no
//! passive station.  Written from the DP slave state machine (Wait_Prm / Wait_Cfg / Data_Exch),
//! including FDL retry detection by the frame count bit.

use crate::bus::NodeId;
use crate::rng::Rng;
use crate::scenario::{ByzShape, SlaveCfg, SlaveFlagKind};
use crate::wire::{self, Fc, Frame};
use std::collections::VecDeque;

#[derive(Clone, Copy, Debug, PartialEq, Eq)]
pub enum SlaveState {
    WaitPrm,
    WaitCfg,
    DataExch,
}

pub struct Slave {
    pub cfg: SlaveCfg,
    pub node: NodeId,
    pub powered: bool,
    pub state: SlaveState,
    pub master: Option<u8>,
    /// Stored frame count bit and response per requesting master (only one is tracked).
    pub fcb_stored: Option<(u8, bool)>,
    pub last_resp: Option<Vec<u8>>,
    pub min_tsdr: u16,
    pub wd_ticks: Option<u64>,
    pub last_contact: u64,
    pub outputs: Vec<u8>,
    pub prm_fault: bool,
    pub cfg_fault: bool,
    pub not_ready_left: u8,
    pub diag_pending: bool,
    pub byz: VecDeque<ByzShape>,
    pub flag_faults: Vec<(SlaveFlagKind, u8)>,
    pub rng: Rng,
    pub slot_bits: u32,
    pub baud: u64,
    // statistics / observations for the monitors
    pub n_requests: u64,
    pub n_retrans_detected: u64,
    pub n_dx: u64,
    pub n_byz: u64,
    pub n_power_cycles: u64,
    pub n_wd_expired: u64,
    pub last_dx_at: u64,
}

pub struct SlaveReply {
    pub delay_bits: u64,
    pub bytes: Vec<u8>,
}

impl Slave {
    pub fn new(cfg: &SlaveCfg, node: NodeId, seed: u64, slot_bits: u32, baud: u64) -> Self {
        Slave {
            cfg: cfg.clone(),
            node,
            powered: false,
            state: SlaveState::WaitPrm,
            master: None,
            fcb_stored: None,
            last_resp: None,
            min_tsdr: cfg.min_tsdr,
            wd_ticks: None,
            last_contact: 0,
            outputs: vec![0; cfg.out_len],
            prm_fault: false,
            cfg_fault: false,
            not_ready_left: 0,
            diag_pending: false,
            byz: VecDeque::new(),
            flag_faults: Vec::new(),
            rng: Rng::new(seed),
            slot_bits,
            baud,
            n_requests: 0,
            n_retrans_detected: 0,
            n_dx: 0,
            n_byz: 0,
            n_power_cycles: 0,
            n_wd_expired: 0,
            last_dx_at: 0,
        }
    }

    pub fn power(&mut self, on: bool) {
        if on && !self.powered {
            self.n_power_cycles += 1;
        }
        self.powered = on;
        // nothing survives a power cycle
        self.state = SlaveState::WaitPrm;
        self.master = None;
        self.fcb_stored = None;
        self.last_resp = None;
        self.min_tsdr = self.cfg.min_tsdr;
        self.wd_ticks = None;
        self.prm_fault = false;
        self.cfg_fault = false;
        self.not_ready_left = 0;
        self.diag_pending = false;
        self.outputs.iter_mut().for_each(|b| *b = 0);
    }

    pub fn reset_to_wait_prm(&mut self) {
        self.state = SlaveState::WaitPrm;
        self.master = None;
        self.wd_ticks = None;
    }

    /// Is the slave (from now on) a healthy, conforming peripheral for the given options?
    pub fn quiescent(&self) -> bool {
        self.byz.is_empty() && self.flag_faults.is_empty()
    }

    fn take_flag(&mut self, k: SlaveFlagKind) -> bool {
        if let Some(pos) = self.flag_faults.iter().position(|(f, _)| *f == k) {
            let e = &mut self.flag_faults[pos];
            e.1 = e.1.saturating_sub(1);
            if e.1 == 0 {
                self.flag_faults.remove(pos);
            }
            true
        } else {
            false
        }
    }

    fn diag_pdu(&mut self) -> Vec<u8> {
        let mut s1 = 0u8;
        let mut s2 = 0x04u8; // permanent bit
        if self.state != SlaveState::DataExch {
            s1 |= 0x02; // station not ready
        }
        if self.state == SlaveState::WaitPrm {
            s2 |= 0x01; // prm req
        }
        if self.state == SlaveState::DataExch && self.not_ready_left > 0 {
            self.not_ready_left -= 1;
            s1 |= 0x02;
        }
        if self.prm_fault {
            s1 |= 0x40;
        }
        if self.cfg_fault {
            s1 |= 0x04;
        }
        if self.take_flag(SlaveFlagKind::PrmFault) {
            s1 |= 0x40;
        }
        if self.take_flag(SlaveFlagKind::CfgFault) {
            s1 |= 0x04;
        }
        if self.take_flag(SlaveFlagKind::NotReady) {
            s1 |= 0x02;
        }
        if self.take_flag(SlaveFlagKind::PrmReq) {
            s2 |= 0x01;
        }
        if self.take_flag(SlaveFlagKind::StatDiag) {
            s2 |= 0x02;
        }
        if self.wd_ticks.is_some() {
            s2 |= 0x08;
        }
        s1 |= self.cfg.odd_status.0;
        s2 |= self.cfg.odd_status.1;
        let mut pdu = vec![s1, s2, 0, self.master.unwrap_or(255), (self.cfg.ident >> 8) as u8, self.cfg.ident as u8];
        if !self.cfg.ext_diag.is_empty() {
            pdu[0] |= 0x08;
            pdu.extend_from_slice(&self.cfg.ext_diag);
        }
        self.diag_pending = false;
        pdu
    }

    fn resp(&self, to: u8, dsap: Option<u8>, ssap: Option<u8>, status: u8, pdu: Vec<u8>) -> Vec<u8> {
        let f = Frame::Data {
            da: to,
            sa: self.cfg.addr,
            dsap,
            ssap,
            fc: wire::fc_response(0, status),
            pdu,
        };
        if self.cfg.sd2_always {
            wire::encode_sd2_forced(&f)
        } else {
            wire::encode(&f)
        }
    }

    fn tsdr(&mut self) -> u64 {
        let lo = u64::from(self.min_tsdr.max(11));
        let hi = u64::from(self.cfg.max_tsdr).max(lo);
        match self.rng.below(8) {
            0 => lo,
            1 => hi,
            _ => self.rng.range(lo, hi),
        }
    }

    /// React to a frame that was completely received at global time `t_end` (ticks).
    pub fn handle(&mut self, frame: &Frame, t_end: u64) -> Option<SlaveReply> {
        if !self.powered {
            return None;
        }
        let (da, sa, dsap, ssap, fcb, pdu) = match frame {
            Frame::Data {
                da,
                sa,
                dsap,
                ssap,
                fc,
                pdu,
            } => (*da, *sa, *dsap, *ssap, *fc, pdu),
            _ => return None,
        };
        let (fcv, fcb, req) = match wire::fc_decode(fcb) {
            Fc::Request { fcv, fcb, req } => (fcv, fcb, req),
            Fc::Response { .. } => return None,
        };
        let broadcast = da == 127;
        if da != self.cfg.addr && !broadcast {
            return None;
        }
        self.n_requests += 1;

        // watchdog
        if let Some(wd) = self.wd_ticks {
            if self.state != SlaveState::WaitPrm && t_end.saturating_sub(self.last_contact) > wd {
                self.n_wd_expired += 1;
                self.reset_to_wait_prm();
            }
        }

        // FDL status
        if req == wire::REQ_FDL_STATUS {
            if broadcast {
                return None;
            }
            let bytes = self.resp(sa, None, None, self.cfg.fdl_status_code & 0x0F, vec![]);
            return self.finish(bytes, req, dsap);
        }
        if !wire::request_expects_reply(req) {
            // SDN (global control etc.): consumed silently
            return None;
        }
        if broadcast {
            return None;
        }

        // retry detection (acknowledged services only)
        if fcv {
            if let (Some((m, stored)), Some(resp)) = (self.fcb_stored, self.last_resp.clone()) {
                if m == sa && stored == fcb {
                    self.n_retrans_detected += 1;
                    return self.finish(resp, req, dsap);
                }
            }
            self.fcb_stored = Some((sa, fcb));
        } else if fcb {
            // FCV=0 / FCB=1: first message cycle, synchronise
            self.fcb_stored = Some((sa, true));
        }

        let bytes = if !self.cfg.dp {
            // generic responder: acknowledge SDA with SC, answer SRD with a small DL response
            match req {
                3 | 5 => vec![wire::SC],
                _ => self.resp(sa, ssap, dsap, 8, vec![0xA5; pdu.len().min(4)]),
            }
        } else {
            match dsap {
                Some(60) => {
                    let d = self.diag_pdu();
                    self.resp(sa, ssap, Some(60), 8, d)
                }
                Some(61) => {
                    self.last_contact = t_end;
                    if pdu.len() >= 7 {
                        let ident = u16::from(pdu[4]) << 8 | u16::from(pdu[5]);
                        let len_ok = self.cfg.prm_len.map(|l| l == pdu.len() - 7).unwrap_or(true);
                        if ident == self.cfg.ident && len_ok {
                            self.prm_fault = false;
                            self.cfg_fault = false;
                            self.master = Some(sa);
                            self.state = SlaveState::WaitCfg;
                            if pdu[3] >= 11 {
                                self.min_tsdr = u16::from(pdu[3]).min(self.cfg.max_tsdr);
                            }
                            self.wd_ticks = if pdu[0] & 0x08 != 0 && self.cfg.honour_watchdog {
                                // f1 * f2 * 10 ms in ticks (1 µs = baud ticks)
                                Some(u64::from(pdu[1]) * u64::from(pdu[2]) * 10_000 * self.baud)
                            } else {
                                None
                            };
                        } else {
                            self.prm_fault = true;
                            self.reset_to_wait_prm();
                        }
                    } else {
                        self.prm_fault = true;
                        self.reset_to_wait_prm();
                    }
                    vec![wire::SC]
                }
                Some(62) => {
                    self.last_contact = t_end;
                    if self.state == SlaveState::WaitCfg && Some(sa) == self.master {
                        if *pdu == self.cfg.cfg {
                            self.cfg_fault = false;
                            self.state = SlaveState::DataExch;
                            self.not_ready_left = self.cfg.not_ready_n;
                        } else {
                            self.cfg_fault = true;
                            self.reset_to_wait_prm();
                        }
                        vec![wire::SC]
                    } else if self.state == SlaveState::DataExch && Some(sa) == self.master && *pdu == self.cfg.cfg {
                        vec![wire::SC]
                    } else {
                        // Chk_Cfg without parameters: service not activated
                        self.resp(sa, ssap, dsap, 3, vec![])
                    }
                }
                None => {
                    if self.state == SlaveState::DataExch && Some(sa) == self.master && pdu.len() == self.cfg.out_len {
                        self.last_contact = t_end;
                        self.outputs.copy_from_slice(pdu);
                        self.n_dx += 1;
                        self.last_dx_at = t_end;
                        if self.cfg.dh_pm > 0 && self.rng.chance(u64::from(self.cfg.dh_pm), 1000) {
                            self.diag_pending = true;
                        }
                        let status = if self.diag_pending { 10 } else { 8 };
                        if self.cfg.in_len == 0 && self.cfg.sc_for_empty && !self.diag_pending {
                            vec![wire::SC]
                        } else {
                            let mut inputs = self.rng.bytes(self.cfg.in_len);
                            if self.cfg.delimiter_payload {
                                for b in inputs.iter_mut() {
                                    if *b & 3 != 0 {
                                        *b = [0x10u8, 0x68, 0xA2, 0xDC, 0xE5, 0x16, 0x00, 0x68][usize::from(*b >> 5)];
                                    }
                                }
                            }
                            self.resp(sa, None, None, status, inputs)
                        }
                    } else if self.state == SlaveState::DataExch && Some(sa) == self.master {
                        // wrong output length: leave data exchange, report cfg fault
                        self.cfg_fault = true;
                        self.reset_to_wait_prm();
                        self.resp(sa, None, None, 3, vec![])
                    } else {
                        self.resp(sa, None, None, 3, vec![])
                    }
                }
                Some(_) => self.resp(sa, ssap, dsap, 3, vec![]),
            }
        };
        if fcv || fcb {
            self.last_resp = Some(bytes.clone());
        }
        self.finish(bytes, req, dsap)
    }

    /// Apply a pending Byzantine shape (fault) to the conforming reply and draw the delay.
    fn finish(&mut self, good: Vec<u8>, _req: u8, _dsap: Option<u8>) -> Option<SlaveReply> {
        let mut delay = self.tsdr();
        let Some(shape) = self.byz.pop_front() else {
            return Some(SlaveReply { delay_bits: delay, bytes: good });
        };
        self.n_byz += 1;
        let decoded = wire::decode_exact(&good);
        let edit = |f: &dyn Fn(&mut Frame)| -> Vec<u8> {
            match decoded.clone() {
                Some(mut fr) => {
                    f(&mut fr);
                    wire::encode(&fr)
                }
                None => good.clone(),
            }
        };
        let addr = self.cfg.addr;
        let bytes = match shape {
            ByzShape::Silent => return None,
            ByzShape::Late => {
                delay = u64::from(self.slot_bits) + self.rng.range(5, 60);
                good.clone()
            }
            ByzShape::WrongSsap => edit(&|f| {
                if let Frame::Data { ssap, .. } = f {
                    *ssap = Some(ssap.map(|s| s ^ 1).unwrap_or(33));
                }
            }),
            ByzShape::WrongDsap => edit(&|f| {
                if let Frame::Data { dsap, .. } = f {
                    *dsap = Some(dsap.map(|s| s ^ 3).unwrap_or(34));
                }
            }),
            ByzShape::NoSaps => edit(&|f| {
                if let Frame::Data { dsap, ssap, .. } = f {
                    *dsap = None;
                    *ssap = None;
                }
            }),
            ByzShape::ShortPdu => edit(&|f| {
                if let Frame::Data { pdu, .. } = f {
                    let n = pdu.len();
                    pdu.truncate(n.saturating_sub(1).min(5));
                }
            }),
            ByzShape::LongPdu => edit(&|f| {
                if let Frame::Data { pdu, .. } = f {
                    if pdu.len() < 240 {
                        pdu.push(0x5A);
                    }
                }
            }),
            ByzShape::EmptyPdu => edit(&|f| {
                if let Frame::Data { pdu, .. } = f {
                    pdu.clear();
                }
            }),
            ByzShape::Status(s) => match decoded.clone() {
                Some(Frame::Data { da, sa, dsap, ssap, pdu, .. }) => wire::encode(&Frame::Data {
                    da,
                    sa,
                    dsap,
                    ssap,
                    fc: wire::fc_response(0, s),
                    pdu,
                }),
                Some(Frame::Sc) => wire::encode(&Frame::Data {
                    da: self.master.unwrap_or(0),
                    sa: addr,
                    dsap: None,
                    ssap: None,
                    fc: wire::fc_response(0, s),
                    pdu: vec![],
                }),
                _ => good.clone(),
            },
            ByzShape::ScInsteadOfData => vec![wire::SC],
            ByzShape::DataInsteadOfSc => match decoded {
                Some(Frame::Sc) => wire::encode(&Frame::Data {
                    da: self.master.unwrap_or(0),
                    sa: addr,
                    dsap: None,
                    ssap: None,
                    fc: wire::fc_response(0, 8),
                    pdu: vec![1, 2, 3],
                }),
                _ => good.clone(),
            },
            ByzShape::WrongSource(a) => edit(&|f| {
                if let Frame::Data { sa, .. } = f {
                    *sa = a & 0x7F;
                }
            }),
            ByzShape::WrongDest(a) => edit(&|f| {
                if let Frame::Data { da, .. } = f {
                    *da = a & 0x7F;
                }
            }),
            ByzShape::Token => vec![wire::SD4, self.master.unwrap_or(0), addr],
            ByzShape::Request => wire::encode(&Frame::Data {
                da: self.master.unwrap_or(0),
                sa: addr,
                dsap: None,
                ssap: None,
                fc: wire::fc_request(false, false, wire::REQ_FDL_STATUS),
                pdu: vec![],
            }),
            ByzShape::Garbage(g) => g,
            ByzShape::Truncated(k) => {
                let keep = usize::from(k).clamp(1, good.len().saturating_sub(1).max(1));
                good[..keep].to_vec()
            }
            ByzShape::Trailing(t) => {
                let mut b = good.clone();
                b.extend_from_slice(&t);
                b
            }
            ByzShape::Nested => {
                let inner = match decoded.clone() {
                    Some(Frame::Data { da, sa, dsap, ssap, fc, pdu }) => wire::encode(&Frame::Data {
                        da,
                        sa,
                        dsap,
                        ssap,
                        fc,
                        pdu: pdu.iter().map(|b| b ^ 0xA5).collect(),
                    }),
                    _ => good.clone(),
                };
                if inner.len() + 3 <= 240 {
                    let mut pdu = vec![0x00, 0x01];
                    pdu.extend_from_slice(&inner);
                    pdu.push(0x02);
                    let mut outer = wire::encode(&Frame::Data {
                        da: self.master.unwrap_or(0),
                        sa: addr,
                        dsap: None,
                        ssap: None,
                        fc: wire::fc_response(0, 8),
                        pdu,
                    });
                    let n = outer.len();
                    outer[n - 2] ^= 0x01;
                    outer
                } else {
                    let mut b = good.clone();
                    let n = b.len();
                    if n >= 2 {
                        b[n - 2] ^= 0x01;
                    }
                    b
                }
            }
            ByzShape::ReadyDiag => match decoded {
                Some(Frame::Data { da, sa, dsap, ssap: Some(60), fc, mut pdu }) if pdu.len() >= 6 => {
                    pdu[0] &= !(0x02 | 0x04 | 0x40);
                    pdu[1] &= !0x01;
                    if pdu[3] == 255 {
                        pdu[3] = da;
                    }
                    wire::encode(&Frame::Data { da, sa, dsap, ssap: Some(60), fc, pdu })
                }
                _ => {
                    self.byz.push_front(ByzShape::ReadyDiag);
                    good.clone()
                }
            },
            ByzShape::ExtDiag(e) => match decoded {
                Some(Frame::Data { da, sa, dsap, ssap, fc, mut pdu }) if pdu.len() >= 6 => {
                    pdu.truncate(6);
                    pdu[0] |= 0x08;
                    pdu.extend_from_slice(&e);
                    wire::encode(&Frame::Data { da, sa, dsap, ssap, fc, pdu })
                }
                _ => good.clone(),
            },
        };
        if bytes.is_empty() {
            return None;
        }
        Some(SlaveReply { delay_bits: delay, bytes })
    }
}
