//! The simulated bus: an exact-time, byte-accurate list of transmissions (DESIGN §2.2).
//!
//! Time is in *ticks*: 1 µs = `baud` ticks, 1 bit = 1_000_000 ticks.  A character is 11 bits.

use crate::wire::{self, Frame};

pub const BIT: u64 = 1_000_000;
pub const CHAR: u64 = 11 * BIT;

pub type NodeId = usize;

#[derive(Clone, Debug)]
pub struct Tx {
    pub start: u64,
    pub sender: NodeId,
    /// Bytes as put on the wire by the sender (possibly cut short by a crash).
    pub bytes: Vec<u8>,
    /// Bytes as seen by receivers (after injected damage / collision).  May be shorter than
    /// `bytes` (truncation fault): the missing characters are never delivered.
    pub seen: Vec<u8>,
    /// Receivers (bit per node) that miss this transmission entirely.
    pub lost_for: u64,
    /// Receivers that get the bytes twice (duplicate fault).
    pub dup_for: u64,
    /// What the sender meant to send (R1 decode of `bytes`), if it is exactly one frame.
    pub frame: Option<Frame>,
    /// Set when this transmission overlapped another one.
    pub collided: bool,
    /// Set when a fault changed what receivers see (incl. loss for everybody).
    pub damaged: bool,
    /// Sender is a real profirust station.
    pub real: bool,
    /// Injected noise / adversary transmissions that are not protocol frames of a node.
    pub noise: bool,
}

impl Tx {
    pub fn end(&self) -> u64 {
        self.start + self.bytes.len() as u64 * CHAR
    }
    /// What a receiver that sees this whole transmission (and nothing else) decodes.
    pub fn seen_frame(&self) -> Option<Frame> {
        wire::decode_exact(&self.seen)
    }
    pub fn lost_for_all(&self) -> bool {
        self.lost_for == u64::MAX
    }
    pub fn intact(&self) -> bool {
        !self.damaged && !self.collided && self.lost_for == 0 && self.dup_for == 0
    }
}

pub struct Bus {
    pub baud: u64,
    pub txs: Vec<Tx>,
    /// Pairs (earlier, later) of overlapping transmissions.
    pub collisions: Vec<(usize, usize)>,
    /// Collision rendering: garble (true) or swallow everything from the overlap on (false).
    pub collision_garbles: bool,
    pub garble_state: u64,
}

impl Bus {
    pub fn new(baud: u64, collision_garbles: bool, garble_seed: u64) -> Self {
        Bus {
            baud,
            txs: Vec::new(),
            collisions: Vec::new(),
            collision_garbles,
            garble_state: garble_seed | 1,
        }
    }

    pub fn us_to_ticks(&self, us: u64) -> u64 {
        us * self.baud
    }
    pub fn ticks_to_us(&self, t: u64) -> u64 {
        t / self.baud
    }
    pub fn bits_to_ticks(bits: u64) -> u64 {
        bits * BIT
    }

    fn garble(&mut self) -> u8 {
        // xorshift; only used to render collisions, seeded from the run seed
        let mut x = self.garble_state;
        x ^= x << 13;
        x ^= x >> 7;
        x ^= x << 17;
        self.garble_state = x;
        (x as u8) | 1
    }

    /// End of the latest transmission that is still running at `t` (None if the bus is idle).
    pub fn busy_until(&self, t: u64) -> Option<(usize, u64)> {
        for (j, tx) in self.txs.iter().enumerate().rev().take(6) {
            if tx.end() > t && tx.start <= t {
                return Some((j, tx.end()));
            }
        }
        None
    }

    /// Append a transmission starting at `start`.  Returns its index.
    pub fn transmit(&mut self, start: u64, sender: NodeId, bytes: Vec<u8>, real: bool, noise: bool) -> usize {
        let idx = self.txs.len();
        let mut seen = bytes.clone();
        let mut collided = false;
        // Overlap with earlier transmissions that are still running (or, behind a transmitter
        // with latency, have been handed over earlier but begin later).
        let new_end = start + bytes.len() as u64 * CHAR;
        let lo = idx.saturating_sub(6);
        for j in (lo..idx).rev() {
            let (a_start, a_end) = (self.txs[j].start, self.txs[j].end());
            if a_end > start && a_start < new_end {
                collided = true;
                self.collisions.push((j, idx));
                self.txs[j].collided = true;
                if a_start <= start {
                    // characters of the earlier transmission that are not finished at `start`
                    let k = ((start - a_start) / CHAR) as usize;
                    if self.collision_garbles {
                        for b in k..self.txs[j].seen.len() {
                            let g = self.garble();
                            self.txs[j].seen[b] ^= g;
                        }
                    } else {
                        let keep = k.min(self.txs[j].seen.len());
                        self.txs[j].seen.truncate(keep);
                    }
                    // characters of the new transmission that overlap the earlier one
                    let nb = (a_end - start).div_ceil(CHAR) as usize;
                    if self.collision_garbles {
                        for b in 0..nb.min(seen.len()) {
                            let g = self.garble();
                            seen[b] ^= g;
                        }
                    } else {
                        // nothing of the new transmission is understood by anybody
                        seen.clear();
                    }
                } else {
                    // the other one begins in the middle of the new transmission
                    let k = ((a_start - start) / CHAR) as usize;
                    let nb = (new_end - a_start).div_ceil(CHAR) as usize;
                    if self.collision_garbles {
                        for b in k.min(seen.len())..seen.len() {
                            let g = self.garble();
                            seen[b] ^= g;
                        }
                        for b in 0..nb.min(self.txs[j].seen.len()) {
                            let g = self.garble();
                            self.txs[j].seen[b] ^= g;
                        }
                    } else {
                        seen.truncate(k.min(seen.len()));
                        self.txs[j].seen.clear();
                    }
                }
            }
        }
        let frame = wire::decode_exact(&bytes);
        self.txs.push(Tx {
            start,
            sender,
            bytes,
            seen,
            lost_for: 0,
            dup_for: 0,
            frame,
            collided,
            damaged: false,
            real,
            noise,
        });
        idx
    }

    /// A crashing sender stops in the middle of its transmission: keep only the characters
    /// whose transmission had started before `t`... the one in progress is cut (receivers get a
    /// framing error, i.e. nothing).
    pub fn cut_transmission(&mut self, sender: NodeId, t: u64) -> bool {
        if let Some(tx) = self.txs.iter_mut().rev().take(4).find(|tx| tx.sender == sender) {
            if tx.end() > t && tx.start <= t {
                let sent = ((t - tx.start) / CHAR) as usize;
                tx.bytes.truncate(sent.max(1));
                let keep = sent.min(tx.seen.len());
                tx.seen.truncate(keep);
                tx.damaged = true;
                tx.frame = None;
                return true;
            }
        }
        false
    }
}
