//! Engine *rx* (DESIGN §2.7): the receive path of the stack — `Telegram::deserialize` and the
//! provided receive helpers of `ProfibusPhy` — fed by a sender process over a byte-timed link,
//! with chunked delivery, random poll instants and (C10) damage injected in flight.
//!
//! Oracle: the reference decoder R1 evaluated on exactly the buffers the real code sees, and the
//! stream model R9 (what was sent, in order, once).

use crate::checks::RunResult;
use crate::rng::{Fnv, Rng};
use crate::scenario::{baud_enum, Scenario};
use crate::wire::{self, Dec, Frame};
use crate::world::{Stats, Violation};
use profirust::phy::ProfibusPhy;
use profirust::time::Instant;
use serde::{Deserialize, Serialize};
use std::cell::RefCell;
use std::rc::Rc;

#[derive(Serialize, Deserialize, Clone, Debug, PartialEq, Eq)]
pub enum ChunkMode {
    /// Every character becomes available when its last bit has arrived.
    Exact,
    /// Characters are handed over in bursts at multiples of this many µs.
    BurstUs(u64),
    /// A whole transmission becomes available at its end.
    Whole,
}

#[derive(Serialize, Deserialize, Clone, Debug)]
pub struct RxItem {
    /// Bytes as received (after damage).
    pub bytes: Vec<u8>,
    /// Bytes as sent (valid frame) when this item is a damaged frame.
    #[serde(default)]
    pub original: Option<Vec<u8>>,
    /// Idle time before this item, in bit times (measured from the end of the previous one).
    pub gap_bits: u32,
    /// Short description of the damage (evidence only).
    #[serde(default)]
    pub damage: String,
}

#[derive(Serialize, Deserialize, Clone, Debug)]
pub struct RxCfg {
    pub baud: u64,
    pub items: Vec<RxItem>,
    pub chunk: ChunkMode,
    pub poll_seed: u64,
    pub p_min_us: u64,
    pub p_max_us: u64,
    /// Use the crate's own `phy::SimulatorPhy` (sender + receiver on its bus) instead of the
    /// harness queue PHY.
    pub simulator_phy: bool,
    /// C10: evaluate the decoder on every buffer; C16: drive the receive helpers.
    pub decoder_only: bool,
}

// ------------------------------------------------------------------------------------------
// PHYs

/// Byte queue with arrival times (µs).
pub struct QueuePhy {
    pub arrivals: Vec<(u64, u8)>,
    next: usize,
    rx: Vec<u8>,
    now_us: u64,
}

impl QueuePhy {
    fn pull(&mut self) {
        while self.next < self.arrivals.len() && self.arrivals[self.next].0 <= self.now_us {
            self.rx.push(self.arrivals[self.next].1);
            self.next += 1;
        }
    }
}

impl ProfibusPhy for QueuePhy {
    fn poll_transmission(&mut self, _now: Instant) -> bool {
        false
    }
    fn transmit_data<F, R>(&mut self, _now: Instant, f: F) -> R
    where
        F: FnOnce(&mut [u8]) -> (usize, R),
    {
        let mut b = [0u8; 300];
        f(&mut b).1
    }
    fn receive_data<F, R>(&mut self, _now: Instant, f: F) -> R
    where
        F: FnOnce(&[u8]) -> (usize, R),
    {
        self.pull();
        let (d, r) = f(&self.rx);
        let d = d.min(self.rx.len());
        self.rx.drain(..d);
        r
    }
}

#[derive(Clone, Debug)]
struct RxCall {
    shown: Vec<u8>,
    dropped: usize,
}

/// Wrapper that records every `receive_data` call; the provided helper methods of the trait
/// (the code under test) run on top of it.
struct Spy<P: ProfibusPhy> {
    inner: P,
    log: Rc<RefCell<Vec<RxCall>>>,
}

impl<P: ProfibusPhy> ProfibusPhy for Spy<P> {
    fn poll_transmission(&mut self, now: Instant) -> bool {
        self.inner.poll_transmission(now)
    }
    fn transmit_data<F, R>(&mut self, now: Instant, f: F) -> R
    where
        F: FnOnce(&mut [u8]) -> (usize, R),
    {
        self.inner.transmit_data(now, f)
    }
    fn receive_data<F, R>(&mut self, now: Instant, f: F) -> R
    where
        F: FnOnce(&[u8]) -> (usize, R),
    {
        let log = self.log.clone();
        self.inner.receive_data(now, |buf| {
            let (d, r) = f(buf);
            log.borrow_mut().push(RxCall { shown: buf.to_vec(), dropped: d });
            (d, r)
        })
    }
}

// ------------------------------------------------------------------------------------------

struct Run<'a> {
    cfg: &'a RxCfg,
    prop: &'a str,
    violations: Vec<Violation>,
    stats: Stats,
    now_us: u64,
}

impl<'a> Run<'a> {
    fn violate(&mut self, oracle: &str, sig: &str, detail: String) {
        if self.violations.len() < 8 {
            self.violations.push(Violation {
                property: self.prop.to_string(),
                oracle: oracle.to_string(),
                sig: sig.to_string(),
                t_us: self.now_us,
                station: None,
                detail,
            });
        }
    }
}

fn bit_us_f(baud: u64, bits: u64) -> u64 {
    (bits * 1_000_000).div_ceil(baud)
}

/// (start µs of each item, arrival list)
fn schedule(cfg: &RxCfg) -> (Vec<u64>, Vec<(u64, u8)>, u64) {
    let mut t = 10u64;
    let mut starts = Vec::new();
    let mut arr = Vec::new();
    for it in &cfg.items {
        t += bit_us_f(cfg.baud, u64::from(it.gap_bits));
        starts.push(t);
        let n = it.bytes.len() as u64;
        let end = t + bit_us_f(cfg.baud, 11 * n);
        for (i, b) in it.bytes.iter().enumerate() {
            let exact = t + bit_us_f(cfg.baud, 11 * (i as u64 + 1));
            let at = match cfg.chunk {
                ChunkMode::Exact => exact,
                ChunkMode::BurstUs(d) => exact.div_ceil(d.max(1)) * d.max(1),
                ChunkMode::Whole => end,
            };
            arr.push((at, *b));
        }
        t = end;
    }
    // arrival times must be monotone
    for i in 1..arr.len() {
        if arr[i].0 < arr[i - 1].0 {
            arr[i].0 = arr[i - 1].0;
        }
    }
    (starts, arr, t)
}

fn verdict_name(d: &Dec) -> &'static str {
    match d {
        Dec::Ok(..) => "accept",
        Dec::NeedMore => "need-more",
        Dec::Bad => "reject",
    }
}

fn stack_decode(buf: &[u8]) -> Dec {
    match profirust::fdl::Telegram::deserialize(buf) {
        None => Dec::NeedMore,
        Some(Err(())) => Dec::Bad,
        Some(Ok((t, n))) => Dec::Ok(wire::from_profirust(&t), n),
    }
}

/// Same telegram for the purposes of C10/C16 (the stack normalises the reserved bit 7 of
/// response function codes away when re-encoding; compare decoded fields).
fn same_frame(a: &Frame, b: &Frame) -> bool {
    match (a, b) {
        (Frame::Data { da, sa, dsap, ssap, fc, pdu }, Frame::Data { da: da2, sa: sa2, dsap: d2, ssap: s2, fc: fc2, pdu: p2 }) => {
            let norm = |f: u8| if f & 0x40 == 0 { f & 0x7F } else { f };
            da == da2 && sa == sa2 && dsap == d2 && ssap == s2 && norm(*fc) == norm(*fc2) && pdu == p2
        }
        _ => a == b,
    }
}

// ------------------------------------------------------------------------------------------
// C10

fn run_decoder(run: &mut Run) {
    let cfg = run.cfg;
    let (_starts, arrivals, end) = schedule(cfg);
    // item index of every arriving byte: items are isolated (bus idle before and after), the
    // receiver's buffer holds what arrived of the current item and was not consumed yet
    let mut arr_item: Vec<usize> = Vec::new();
    for (k, it) in cfg.items.iter().enumerate() {
        for _ in 0..it.bytes.len() {
            arr_item.push(k);
        }
    }
    let mut rng = Rng::new(cfg.poll_seed);
    let mut next = 0usize;
    let mut buf: Vec<u8> = Vec::new();
    let mut item_of_buf: Option<usize> = None;
    let mut consumed_in_item = false;
    let mut last: Option<(Vec<u8>, Dec)> = None;
    let mut t = 0u64;
    let mut polls = 0u64;
    let last_arrival = arrivals.last().map(|a| a.0).unwrap_or(end).max(end);
    while t <= last_arrival + 4 * cfg.p_max_us + 50 {
        t += rng.range(cfg.p_min_us.max(1), cfg.p_max_us.max(1));
        run.now_us = t;
        polls += 1;
        while next < arrivals.len() && arrivals[next].0 <= t {
            if item_of_buf != Some(arr_item[next]) {
                buf.clear();
                last = None;
                item_of_buf = Some(arr_item[next]);
                consumed_in_item = false;
            }
            buf.push(arrivals[next].1);
            next += 1;
        }
        if buf.is_empty() {
            continue;
        }
        // the real decoder, under panic protection (C10: total)
        let b = buf.clone();
        let res = std::panic::catch_unwind(|| stack_decode(&b));
        let got = match res {
            Ok(g) => g,
            Err(_) => {
                let info = crate::world::LAST_PANIC.with(|p| p.borrow_mut().take());
                let loc = info.as_ref().map(|i| i.loc.clone()).unwrap_or_default();
                run.violate(
                    "decoder.total",
                    &format!("panic@{loc}"),
                    format!("Telegram::deserialize panicked on {:02x?}: {}", buf, info.map(|i| i.msg).unwrap_or_default()),
                );
                return;
            }
        };
        let want = wire::decode(&buf);
        run.stats.inc("decoder.buffers_evaluated");
        run.stats.inc(&format!("decoder.r1_{}", verdict_name(&want)));
        // reported length and payload lie inside the input
        if let Dec::Ok(_, n) = &got {
            if *n > buf.len() || *n == 0 {
                run.violate("decoder.bounds", "length-outside-input", format!("accepted telegram reports length {n} for a {}-byte input {:02x?}", buf.len(), buf));
                return;
            }
        }
        match (&want, &got) {
            (Dec::Ok(f, n), Dec::Ok(g, m)) => {
                if n != m || !same_frame(f, g) {
                    run.violate(
                        "decoder.accept",
                        "accepts-different-telegram",
                        format!("input {:02x?}: reference decodes {} ({n} bytes), stack decodes {} ({m} bytes)", buf, f.short(), g.short()),
                    );
                    return;
                }
            }
            (Dec::Ok(f, _), other) => {
                run.violate(
                    "decoder.accept",
                    "valid-frame-not-accepted",
                    format!("input {:02x?} is the valid frame {} but the stack answers {}", buf, f.short(), verdict_name(other)),
                );
                return;
            }
            (Dec::NeedMore, Dec::NeedMore) => {}
            (Dec::NeedMore, other) => {
                run.violate(
                    "decoder.prefix",
                    if matches!(other, Dec::Bad) { "valid-prefix-rejected" } else { "valid-prefix-accepted" },
                    format!("input {:02x?} is a proper prefix of a valid frame but the stack answers {}", buf, verdict_name(other)),
                );
                return;
            }
            (Dec::Bad, Dec::Bad) => {}
            (Dec::Bad, Dec::NeedMore) => {
                // late rejection is allowed, silent waiting on a complete frame is not
                if let Some(l) = wire::announced_len(&buf) {
                    if buf.len() >= l {
                        run.violate(
                            "decoder.prefix",
                            "waits-on-complete-bad-frame",
                            format!("input {:02x?} holds the complete announced frame ({l} bytes) and is invalid, but the stack asks for more data", buf),
                        );
                        return;
                    }
                } else {
                    run.violate("decoder.prefix", "waits-on-unknown-delimiter", format!("input {:02x?} cannot start a frame but the stack asks for more data", buf));
                    return;
                }
                // The decoder looks at nothing before it has six bytes (the shortest data
                // telegram): until then "more data" for a header that is already inconsistent is
                // tolerated (observation O7), and so is the late rejection of a function code or
                // address the reference already refuses.  From six bytes on, a variable-length
                // header whose two length bytes or two start delimiters disagree (there is no
                // "announced length" then) must be rejected, not waited on.
                if buf.len() >= 6 && buf[0] == wire::SD2 && (buf[1] != buf[2] || buf[3] != wire::SD2 || buf[1] < 3) {
                    run.violate(
                        "decoder.prefix",
                        "waits-on-inconsistent-header",
                        format!("input {:02x?} is not the prefix of any valid frame (the reference rejects the header) but the stack asks for more data", buf),
                    );
                    return;
                }
                run.stats.inc("probe.late_rejection");
            }
            (Dec::Bad, Dec::Ok(g, m)) => {
                run.violate(
                    "decoder.accept",
                    "accepts-bad-frame",
                    format!("input {:02x?} is not a valid frame (reference rejects) but the stack accepts {} ({m} bytes)", buf, g.short()),
                );
                return;
            }
        }
        // verdicts along a growing buffer never flip from accept / reject to something else
        if let Some((pb, pv)) = &last {
            if buf.len() > pb.len() && buf.starts_with(pb) {
                let flip = match (pv, &got) {
                    (Dec::Ok(a, n), Dec::Ok(b, m)) => !(n == m && same_frame(a, b)),
                    (Dec::Ok(..), _) => true,
                    (Dec::Bad, Dec::Bad) => false,
                    (Dec::Bad, _) => true,
                    (Dec::NeedMore, _) => false,
                };
                if flip {
                    run.violate(
                        "decoder.prefix",
                        "verdict-flips-on-longer-input",
                        format!("verdict on {:02x?} was {} but on the longer input {:02x?} it is {}", pb, verdict_name(pv), buf, verdict_name(&got)),
                    );
                    return;
                }
                run.stats.inc("decoder.prefix_pairs_compared");
            }
        }
        // single-byte damage of a valid frame is never decoded as a different telegram
        if let (Some(k), Dec::Ok(g, _), false) = (item_of_buf, &got, consumed_in_item) {
            if let Some(orig) = &cfg.items[k].original {
                // (data frames and short confirmations; token telegrams carry no checksum)
                if let Some(of) = wire::decode_exact(orig).filter(|f| !f.is_token()) {
                    let delimiter_swap = !orig.is_empty() && !cfg.items[k].bytes.is_empty() && orig[0] != cfg.items[k].bytes[0];
                    if !same_frame(&of, g) && !delimiter_swap {
                        run.violate(
                            "decoder.accept",
                            "damaged-frame-decoded-as-different-telegram",
                            format!("frame {} damaged ({}) to {:02x?} is decoded as {}", of.short(), cfg.items[k].damage, cfg.items[k].bytes, g.short()),
                        );
                        return;
                    }
                    if !same_frame(&of, g) {
                        run.stats.inc("probe.delimiter_substitution_decodes_differently");
                    }
                }
            }
        }
        last = Some((buf.clone(), got.clone()));
        // consume like the receive helpers would
        match got {
            Dec::Ok(_, n) => {
                buf.drain(..n);
                last = None;
                consumed_in_item = true;
                if !buf.is_empty() {
                    run.stats.inc("probe.more_than_one_telegram_in_buffer");
                }
            }
            Dec::Bad => {
                buf.clear();
                last = None;
                consumed_in_item = true;
            }
            Dec::NeedMore => {}
        }
    }
    run.stats.add("rx.polls", polls);
}

// ------------------------------------------------------------------------------------------
// C16

enum AnyPhy {
    Queue(Spy<QueuePhy>),
    Sim(Spy<profirust::phy::SimulatorPhy>, profirust::phy::SimulatorPhy),
}

fn run_helpers(run: &mut Run) {
    let cfg = run.cfg;
    let (starts, arrivals, end) = schedule(cfg);
    let log: Rc<RefCell<Vec<RxCall>>> = Rc::new(RefCell::new(Vec::new()));
    let mut phy = if cfg.simulator_phy {
        let tx = profirust::phy::SimulatorPhy::new(baud_enum(cfg.baud), "sender");
        let rx = tx.duplicate("receiver");
        AnyPhy::Sim(Spy { inner: rx, log: log.clone() }, tx)
    } else {
        AnyPhy::Queue(Spy {
            inner: QueuePhy {
                arrivals: arrivals.clone(),
                next: 0,
                rx: Vec::new(),
                now_us: 0,
            },
            log: log.clone(),
        })
    };
    let mut rng = Rng::new(cfg.poll_seed);
    // expected telegram sequence (R9): what the items decode to, in order
    let mut expected: Vec<(usize, Frame)> = Vec::new();
    for (k, it) in cfg.items.iter().enumerate() {
        let mut off = 0;
        while off < it.bytes.len() {
            match wire::decode(&it.bytes[off..]) {
                Dec::Ok(f, n) => {
                    expected.push((k, f));
                    off += n;
                }
                _ => break,
            }
        }
    }
    let mut delivered: Vec<Frame> = Vec::new();
    let mut sent_items = 0usize;
    // did item k start to arrive on an empty receive buffer?
    let mut residual = 0usize;
    // latest poll after which the receive buffer was empty
    let mut zero_at: Option<u64> = Some(0);
    let prev_last_arrival: Vec<u64> = {
        let mut v = Vec::new();
        let mut acc = 0usize;
        for it in &cfg.items {
            v.push(if acc == 0 { 0 } else { arrivals[acc - 1].0 });
            acc += it.bytes.len();
        }
        v
    };
    let mut clean_start: Vec<Option<bool>> = vec![None; cfg.items.len()];
    let first_arrival: Vec<u64> = {
        let mut v = Vec::new();
        let mut acc = 0usize;
        for it in &cfg.items {
            v.push(arrivals.get(acc).map(|a| a.0).unwrap_or(u64::MAX));
            acc += it.bytes.len();
        }
        v
    };
    let mut t = 0u64;
    let last_arrival = arrivals.last().map(|a| a.0).unwrap_or(end).max(end);
    let final_t = last_arrival + 6 * cfg.p_max_us + 100;
    let mut polls = 0u64;
    // times of the polls that called a receive helper
    let mut recv_polls: Vec<u64> = Vec::new();
    while t <= final_t {
        t += rng.range(cfg.p_min_us.max(1), cfg.p_max_us.max(1));
        run.now_us = t;
        polls += 1;
        let method = if t > last_arrival + 2 * cfg.p_max_us { 1 } else { rng.below(5) };
        if method != 4 {
            recv_polls.push(t);
        }
        for k in 0..cfg.items.len() {
            if clean_start[k].is_none() && first_arrival[k] <= t {
                // empty after everything that was sent before had arrived
                clean_start[k] = Some(zero_at.map(|z| z >= prev_last_arrival[k]).unwrap_or(false) && first_arrival[k] > prev_last_arrival[k]);
            }
        }
        let now = Instant::from_micros(t as i64);
        let cbs: RefCell<Vec<(Frame, bool)>> = RefCell::new(Vec::new());
        log.borrow_mut().clear();
        let mut returned_some = false;
        let mut single = false;
        let mut do_poll = |p: &mut dyn FnMut(u8) -> (bool, bool)| {
            let r = p(method as u8);
            returned_some = r.0;
            single = r.1;
        };
        match &mut phy {
            AnyPhy::Queue(spy) => {
                spy.inner.now_us = t;
                do_poll(&mut |m| match m {
                    0 => (spy.receive_telegram(now, |tg| cbs.borrow_mut().push((wire::from_profirust(&tg), true))).is_some(), true),
                    4 => {
                        let _ = spy.poll_pending_received_bytes(now);
                        (false, false)
                    }
                    _ => (
                        spy.receive_all_telegrams(now, |tg, last| {
                            cbs.borrow_mut().push((wire::from_profirust(&tg), last));
                        })
                        .is_some(),
                        false,
                    ),
                });
            }
            AnyPhy::Sim(spy, tx) => {
                // the sender transmits every item whose start time has come (the simulator bus
                // checks idle times itself and delivers bytes with wire timing)
                while sent_items < cfg.items.len() && starts[sent_items] <= t {
                    let st = starts[sent_items];
                    tx.set_bus_time(Instant::from_micros(st as i64));
                    let bytes = cfg.items[sent_items].bytes.clone();
                    tx.transmit_data(Instant::from_micros(st as i64), |b| {
                        b[..bytes.len()].copy_from_slice(&bytes);
                        (bytes.len(), ())
                    });
                    sent_items += 1;
                }
                tx.set_bus_time(now);
                do_poll(&mut |m| match m {
                    0 => (spy.receive_telegram(now, |tg| cbs.borrow_mut().push((wire::from_profirust(&tg), true))).is_some(), true),
                    4 => {
                        let _ = spy.poll_pending_received_bytes(now);
                        (false, false)
                    }
                    _ => (
                        spy.receive_all_telegrams(now, |tg, last| {
                            cbs.borrow_mut().push((wire::from_profirust(&tg), last));
                        })
                        .is_some(),
                        false,
                    ),
                });
            }
        }
        // judge every receive_data call of this poll against R1 on the same buffer
        let calls = log.borrow().clone();
        if let Some(c) = calls.last() {
            residual = c.shown.len() - c.dropped.min(c.shown.len());
        }
        if residual == 0 && !calls.is_empty() {
            zero_at = Some(t);
        } else if residual != 0 {
            zero_at = None;
        }
        let cbs = cbs.into_inner();
        let mut cb_i = 0usize;
        for (ci, c) in calls.iter().enumerate() {
            if method == 4 {
                if c.dropped != 0 {
                    run.violate("stream.pending", "pending-query-drops-bytes", format!("poll_pending_received_bytes dropped {} bytes", c.dropped));
                    return;
                }
                continue;
            }
            run.stats.inc("stream.receive_calls");
            match wire::decode(&c.shown) {
                Dec::Ok(f, n) => {
                    let Some((got, last)) = cbs.get(cb_i) else {
                        run.violate(
                            "stream.delivery",
                            "complete-telegram-not-delivered",
                            format!("buffer {:02x?} starts with the complete telegram {} but the callback was not invoked", c.shown, f.short()),
                        );
                        return;
                    };
                    cb_i += 1;
                    if !same_frame(&f, got) {
                        run.violate("stream.delivery", "wrong-telegram-delivered", format!("buffer {:02x?}: expected {}, callback got {}", c.shown, f.short(), got.short()));
                        return;
                    }
                    if c.dropped != n {
                        run.violate(
                            "stream.bytes",
                            "wrong-number-of-bytes-dropped",
                            format!("telegram {} is {n} bytes long but {} of {} buffered bytes were dropped", f.short(), c.dropped, c.shown.len()),
                        );
                        return;
                    }
                    if !single {
                        let want_last = n == c.shown.len();
                        if *last != want_last {
                            run.violate(
                                "stream.last-flag",
                                if want_last { "last-telegram-not-flagged" } else { "telegram-wrongly-flagged-last" },
                                format!(
                                    "telegram {} delivered with is_last_telegram={} while {} byte(s) were buffered behind it",
                                    f.short(),
                                    last,
                                    c.shown.len() - n
                                ),
                            );
                            return;
                        }
                        if !want_last {
                            run.stats.inc("probe.is_last_telegram_false_delivered");
                            if ci + 1 >= calls.len() {
                                run.violate("stream.delivery", "loop-stopped-with-data-behind", "receive_all_telegrams stopped although the last delivered telegram was not flagged as last".to_string());
                                return;
                            }
                        }
                    }
                    if n != c.shown.len() {
                        run.stats.inc("probe.more_than_one_telegram_in_buffer");
                    }
                    delivered.push(f);
                }
                Dec::NeedMore => {
                    if c.dropped != 0 {
                        run.violate(
                            "stream.bytes",
                            "bytes-of-incomplete-telegram-dropped",
                            format!("buffer {:02x?} is an incomplete telegram but {} byte(s) were dropped", c.shown, c.dropped),
                        );
                        return;
                    }
                    if !c.shown.is_empty() {
                        run.stats.inc("stream.incomplete_kept");
                    }
                }
                Dec::Bad => {
                    run.stats.inc("stream.undecodable_seen");
                    if c.dropped == 0 && !c.shown.is_empty() {
                        // must not wait for ever on data that cannot become a telegram
                        if let Some(l) = wire::announced_len(&c.shown) {
                            if c.shown.len() >= l {
                                run.violate("stream.discard", "undecodable-data-kept", format!("buffer {:02x?} is complete and invalid but nothing was dropped", c.shown));
                                return;
                            }
                        }
                        // ... nor on data that does not even start like one
                        if !matches!(c.shown[0], 0x10 | 0x68 | 0xA2 | 0xDC | 0xE5) {
                            run.violate(
                                "stream.discard",
                                "junk-kept",
                                format!("buffer {:02x?} does not start with a start delimiter, can never become a telegram, and yet nothing was dropped", c.shown),
                            );
                            return;
                        }
                    }
                }
            }
        }
        if cb_i != cbs.len() {
            run.violate(
                "stream.delivery",
                "spurious-telegram-delivered",
                format!("{} callback(s) without a complete telegram at the head of the buffer: {:?}", cbs.len() - cb_i, cbs[cb_i..].iter().map(|c| c.0.short()).collect::<Vec<_>>()),
            );
            return;
        }
        if method == 0 && returned_some != !cbs.is_empty() {
            run.violate("stream.delivery", "return-value", "receive_telegram return value does not match the callback".to_string());
            return;
        }
        if method != 0 && method != 4 {
            let want_some = cbs.last().map(|c| c.1).unwrap_or(false);
            if returned_some != want_some {
                run.violate(
                    "stream.last-flag",
                    "return-value",
                    format!("receive_all_telegrams returned {} but the last callback had is_last_telegram={}", if returned_some { "Some" } else { "None" }, want_some),
                );
                return;
            }
        }
    }
    run.stats.add("rx.polls", polls);
    run.stats.add("stream.telegrams_delivered", delivered.len() as u64);
    // R9: exactly the sent telegrams, in order, once (damaged items and what they swallow excepted)
    let all_valid = cfg.items.iter().all(|i| i.original.is_none() && wire::decode_exact_multi(&i.bytes));
    if all_valid {
        if delivered.len() != expected.len() || delivered.iter().zip(expected.iter()).any(|(a, b)| !same_frame(a, &b.1)) {
            run.violate(
                "stream.order",
                "sequence-mismatch",
                format!(
                    "sent {} telegrams {:?} but {} were delivered {:?}",
                    expected.len(),
                    expected.iter().map(|e| e.1.short()).collect::<Vec<_>>(),
                    delivered.len(),
                    delivered.iter().map(|e| e.short()).collect::<Vec<_>>()
                ),
            );
        }
    } else {
        // every valid item that arrives separately after damaged data was discarded is delivered
        for (k, it) in cfg.items.iter().enumerate() {
            if it.original.is_some() || !wire::decode_exact_multi(&it.bytes) {
                continue;
            }
            // "arrives separately": on an empty buffer, and nothing is appended before it is complete
            let alone = k + 1 >= cfg.items.len() || bit_us_f(cfg.baud, u64::from(cfg.items[k + 1].gap_bits)) > 3 * cfg.p_max_us + 10;
            // The same obligation, stated without looking at what the stack kept: the item before
            // is junk that does not start like a telegram, arrived on an empty buffer, was seen whole
            // by a receiving poll before this telegram's first byte - whatever the helper does with
            // such junk, "the next telegram that arrives separately is received correctly".
            let after_whole_junk = k >= 1 && {
                let j = &cfg.items[k - 1];
                let junk = !j.bytes.is_empty() && !matches!(j.bytes[0], 0x10 | 0x68 | 0xA2 | 0xDC | 0xE5) && j.bytes.len() <= 5;
                let j_first = first_arrival[k - 1];
                let j_last = prev_last_arrival[k];
                junk
                    && clean_start[k - 1] == Some(true)
                    && first_arrival[k] > j_last
                    && !recv_polls.iter().any(|t| *t >= j_first && *t < j_last)
                    && recv_polls.iter().any(|t| *t >= j_last && *t < first_arrival[k])
            };
            if after_whole_junk && alone {
                if let Some(f) = wire::decode_exact(&it.bytes) {
                    if !delivered.iter().any(|d| same_frame(d, &f)) {
                        run.violate(
                            "stream.discard",
                            "telegram-after-junk-lost",
                            format!(
                                "telegram {} arrived separately after the junk {:02x?} (seen whole by a receiving poll, on an empty buffer) but was never delivered",
                                f.short(),
                                cfg.items[k - 1].bytes
                            ),
                        );
                        return;
                    }
                    run.stats.inc("probe.clean_telegram_after_junk_delivered");
                }
            }
            if clean_start[k] == Some(true) && alone {
                let f = wire::decode_exact(&it.bytes);
                if let Some(f) = f {
                    if !delivered.iter().any(|d| same_frame(d, &f)) {
                        run.violate(
                            "stream.discard",
                            "telegram-after-discard-lost",
                            format!("telegram {} arrived separately after undecodable data but was never delivered", f.short()),
                        );
                        return;
                    }
                    run.stats.inc("probe.clean_telegram_after_discard_delivered");
                }
            }
        }
    }
}

pub fn run_rx(sc: &Scenario, cfg: &RxCfg) -> RunResult {
    let t0 = std::time::Instant::now();
    crate::logger::configure(false);
    let mut run = Run {
        cfg,
        prop: &sc.check,
        violations: Vec::new(),
        stats: Stats::default(),
        now_us: 0,
    };
    let res = std::panic::catch_unwind(std::panic::AssertUnwindSafe(|| {
        if cfg.decoder_only {
            run_decoder(&mut run)
        } else {
            run_helpers(&mut run)
        }
    }));
    if res.is_err() {
        let info = crate::world::LAST_PANIC.with(|p| p.borrow_mut().take());
        let loc = info.as_ref().map(|i| i.loc.clone()).unwrap_or_default();
        if loc.contains("/verif/") || loc.starts_with("src/") {
            // a panic of the harness itself
            std::panic::resume_unwind(Box::new(format!("harness panic in rx engine at {loc}")));
        }
        run.violate(
            if cfg.decoder_only { "decoder.total" } else { "stream.total" },
            &format!("panic@{loc}"),
            format!("the receive path panicked at {loc}: {}", info.map(|i| i.msg).unwrap_or_default()),
        );
    }
    for it in &cfg.items {
        if !it.damage.is_empty() {
            run.stats.inc(&format!("fault.{}", it.damage));
        }
    }
    let mut fp = Fnv::new();
    for it in &cfg.items {
        fp.u8(it.bytes.first().copied().unwrap_or(0));
        fp.u64(it.bytes.len() as u64);
        fp.str(&it.damage);
    }
    fp.u64(match cfg.chunk {
        ChunkMode::Exact => 0,
        ChunkMode::BurstUs(_) => 1,
        ChunkMode::Whole => 2,
    });
    let mut th = Fnv::new();
    for it in &cfg.items {
        th.bytes(&it.bytes);
    }
    th.u64(cfg.poll_seed);
    th.u64(run.stats.get("rx.polls"));
    th.u64(run.stats.get("decoder.buffers_evaluated") + run.stats.get("stream.receive_calls"));
    let nontrivial = run.stats.get("decoder.buffers_evaluated") + run.stats.get("stream.receive_calls") >= 3;
    RunResult {
        k: 0,
        seed: sc.seed,
        violations: run.violations,
        counters: run.stats.c,
        maxf: run.stats.maxf,
        trace_hash: format!("{:016x}", th.finish()),
        fingerprint: format!("{:016x}", fp.finish()),
        nontrivial,
        sim_us: run.now_us,
        polls: 0,
        txs: cfg.items.len() as u64,
        aborted: None,
        wall_us: t0.elapsed().as_micros() as u64,
    }
}
