//! The explicit, serialisable scenario (DESIGN §2.4).  A run is a pure function of
//! (scenario, code): the scenario holds the configuration, the per-stream seeds (through `seed`)
//! and the explicit fault list.

use serde::{Deserialize, Serialize};

pub const BAUDS: [u64; 11] = [
    9600, 19200, 31250, 45450, 93750, 187_500, 500_000, 1_500_000, 3_000_000, 6_000_000, 12_000_000,
];

pub fn min_slot_bits(baud: u64) -> u16 {
    match baud {
        500_000 => 200,
        1_500_000 => 300,
        3_000_000 => 400,
        6_000_000 => 600,
        12_000_000 => 1000,
        _ => 100,
    }
}

pub fn baud_enum(baud: u64) -> profirust::Baudrate {
    use profirust::Baudrate::*;
    match baud {
        9600 => B9600,
        19200 => B19200,
        31250 => B31250,
        45450 => B45450,
        93750 => B93750,
        187_500 => B187500,
        500_000 => B500000,
        1_500_000 => B1500000,
        3_000_000 => B3000000,
        6_000_000 => B6000000,
        12_000_000 => B12000000,
        _ => panic!("harness: unknown baud rate {baud}"),
    }
}

#[derive(Serialize, Deserialize, Clone, Debug)]
pub struct Scenario {
    pub check: String,
    pub tier: String,
    pub seed: u64,
    pub world: WorldCfg,
    #[serde(default)]
    pub faults: Vec<Fault>,
    /// Free-form parameters of the check's oracles (bounds, windows) fixed at generation time.
    #[serde(default)]
    pub oracle: OracleCfg,
    #[serde(default)]
    pub expect: Option<Expect>,
    /// Engine *rx* (C10, C16): when present the world is not used.
    #[serde(default)]
    pub rx: Option<crate::rx::RxCfg>,
    /// Build variant of profirust the violation was found with ("noassert": no debug assertions, no
    /// overflow checks); `./check replay` picks the matching simulator binary.
    #[serde(default, skip_serializing_if = "Option::is_none")]
    pub build: Option<String>,
}

#[derive(Serialize, Deserialize, Clone, Debug, Default)]
pub struct OracleCfg {
    /// Time (µs) of the last population change / end of the fault window.
    #[serde(default)]
    pub quiet_from_us: u64,
    /// Convergence / recovery bound in µs counted from `quiet_from_us`.
    #[serde(default)]
    pub bound_us: u64,
    /// Stability window after convergence, µs.
    #[serde(default)]
    pub stable_us: u64,
    /// DP: bound in DP cycles.
    #[serde(default)]
    pub bound_cycles: u64,
    /// Monitors to enable in addition to the check's own (names).
    #[serde(default)]
    pub extra: Vec<String>,
}

#[derive(Serialize, Deserialize, Clone, Debug)]
pub struct Expect {
    pub property: String,
    pub oracle: String,
    pub sig: String,
    pub t_us: u64,
    pub trace_hash: String,
    pub detail: String,
}

#[derive(Serialize, Deserialize, Clone, Debug)]
pub struct WorldCfg {
    pub baud: u64,
    pub stations: Vec<StationCfg>,
    #[serde(default)]
    pub slaves: Vec<SlaveCfg>,
    #[serde(default)]
    pub adversary: Option<AdvCfg>,
    pub collision_garbles: bool,
    pub end_us: u64,
    pub max_polls: u64,
    /// Logger formats every record (C05); otherwise logging is off for speed.
    #[serde(default)]
    pub log_all: bool,
    /// Faults stop here (µs; 0 = never): pending triggers no longer fire, queued Byzantine
    /// replies and fault flags of the reference slaves are discarded.
    #[serde(default)]
    pub fault_deadline_us: u64,
}

#[derive(Serialize, Deserialize, Clone, Debug, PartialEq, Eq)]
pub enum PlanOp {
    Online,
    Offline,
}

#[derive(Serialize, Deserialize, Clone, Debug, PartialEq, Eq)]
pub enum TxDoneCfg {
    Exact,
    LateUs(u64),
    Early,
}

#[derive(Serialize, Deserialize, Clone, Debug)]
pub struct StationCfg {
    pub addr: u8,
    pub slot_bits: u16,
    pub hsa: u8,
    pub gap: u8,
    pub ttr: u32,
    pub retry: u8,
    pub min_tsdr: u8,
    pub watchdog_ms: Option<u32>,
    pub p_min_us: u64,
    pub p_max_us: u64,
    pub clock_off_us: i64,
    pub skew_ppm: i32,
    /// (global time µs, op).  The first `Online` creates the station's PHY.
    pub plan: Vec<(u64, PlanOp)>,
    pub apps: Vec<AppCfg>,
    /// With exactly one application use `poll()` instead of `poll_multi()`.
    pub single_poll_api: bool,
    /// When the station object comes back online after `set_offline()`, the application polls it
    /// with only the first n of its applications from then on (the list may change while offline).
    #[serde(default)]
    pub rejoin_keep_apps: Option<u8>,
    pub tx_done: TxDoneCfg,
    pub rx_chunk_us: u64,
    /// Transmitter latency: the characters handed to `transmit_data` go onto the wire up to this
    /// many µs later (a different, seed-determined amount for every transmission: driver, FIFO or
    /// USB latency); `poll_transmission` stays true until they are really out.
    #[serde(default)]
    pub tx_lag_us: u64,
    /// Per-mille probability that a poll is immediately repeated at the same instant.
    pub dup_poll_pm: u32,
    /// Bytes in the PHY RX buffer at the first `set_online` (fault kind, C05/C06 only).
    #[serde(default)]
    pub stale_rx: Vec<u8>,
}

#[derive(Serialize, Deserialize, Clone, Debug)]
pub enum AppCfg {
    Unit,
    Dp(DpCfg),
    LiveList,
    Scanner,
    Traffic(TrafficCfg),
}

#[derive(Serialize, Deserialize, Clone, Debug)]
pub struct DpCfg {
    /// None = growing Vec storage; Some(n) = fixed array of n slots.
    pub slots: Option<usize>,
    /// Occupy these slot indices first with a dummy peripheral? (not possible through the public
    /// API: slots are filled in order) — instead: number of leading peripherals that are added
    /// and whose address is later re-used.  Unused, kept for format stability.
    #[serde(default)]
    pub reserved: u8,
    pub peripherals: Vec<PeriphCfg>,
    pub user: UserCfg,
    /// Global time (µs) at which `enter_operate()` is called (0 = before the first poll).
    pub operate_at_us: u64,
}

#[derive(Serialize, Deserialize, Clone, Debug)]
pub struct PeriphCfg {
    pub addr: u8,
    pub ident: u16,
    pub sync: bool,
    pub freeze: bool,
    pub groups: u8,
    pub max_tsdr: u16,
    pub fail_safe: bool,
    pub user_prm: Option<Vec<u8>>,
    pub config: Option<Vec<u8>>,
    pub in_len: usize,
    pub out_len: usize,
    pub diag_buf: usize,
    /// 0: added to the `DpMaster` before the bus runs.  Otherwise the user process calls
    /// `DpMaster::add()` for it at the first poll at or after this time (µs) — late additions
    /// are the tail of the peripheral list, in order, so that handle order == list order.
    #[serde(default)]
    pub add_at_us: u64,
    /// A second station with the same equipment answers at this address: `reset_address()` of the
    /// user process switches the peripheral between its address and this one.
    #[serde(default)]
    pub alt_addr: Option<u8>,
}

#[derive(Serialize, Deserialize, Clone, Debug, Default)]
pub struct UserCfg {
    /// Per-mille probability, per poll, of writing random bytes into some `pi_q`.
    pub write_pm: u32,
    /// ... of calling `request_diagnostics()` on some peripheral.
    pub diag_pm: u32,
    /// ... of calling `reset_address()` on a peripheral with nothing outstanding (same address).
    pub reset_pm: u32,
    /// `reset_address()` regardless of outstanding requests (known finding F12; C05 thorough).
    #[serde(default)]
    pub reset_inflight_pm: u32,
    /// Collect events after every poll (required by C14/C04 oracles); otherwise every n-th poll.
    pub take_every: u32,
    /// User actions stop at this time (µs); 0 = never.
    #[serde(default)]
    pub until_us: u64,
}

#[derive(Serialize, Deserialize, Clone, Debug, PartialEq, Eq)]
pub enum Appetite {
    Never,
    /// Sends with probability pm/1000 each time it is asked.
    Sometimes(u32),
    Always,
    /// Sends `n` telegrams, then declines once (the documented cooperative contract).
    Burst(u32),
}

#[derive(Serialize, Deserialize, Clone, Debug, PartialEq, Eq)]
pub enum ReqKind {
    SdnLow,
    SdnHigh,
    SrdLow,
    SrdHigh,
    FdlStatus,
    /// Send Data Acknowledged: the peer answers with a short confirmation.
    SdaLow,
    SdaHigh,
    /// Request ident / LSAP status / multicast SRD: further services with a reply.
    Ident,
    LsapStatus,
    MulticastSrd,
    /// Services without a reply besides SDN.
    TimeEvent,
    ClockValue,
}

#[derive(Serialize, Deserialize, Clone, Debug)]
pub struct TrafficCfg {
    pub appetite: Appetite,
    pub targets: Vec<u8>,
    pub kinds: Vec<ReqKind>,
    pub max_pdu: usize,
    /// Honour `high_prio_only` by sending only high-priority request kinds.
    pub honour_hp: bool,
}

/// A stub node: DP slave (R5) and/or passive FDL responder.
#[derive(Serialize, Deserialize, Clone, Debug)]
pub struct SlaveCfg {
    pub addr: u8,
    pub ident: u16,
    /// Answers DP services; otherwise only FDL status and generic SRD.
    pub dp: bool,
    pub in_len: usize,
    pub out_len: usize,
    /// Configuration bytes the slave accepts (Chk_Cfg must match exactly).
    pub cfg: Vec<u8>,
    /// Accepted user-parameter length (None = any).
    pub prm_len: Option<usize>,
    pub min_tsdr: u16,
    pub max_tsdr: u16,
    /// (global time µs, powered?) — initially off unless the first entry is at 0.
    pub power: Vec<(u64, bool)>,
    /// Reports "station not ready" in the diagnostics following Chk_Cfg this many times.
    pub not_ready_n: u8,
    /// Per-mille probability (drawn per reply) of signalling diagnostics (DH) in data exchange.
    pub dh_pm: u32,
    /// Extended diagnostics bytes appended to diagnostics replies (with Ext_Diag flag).
    pub ext_diag: Vec<u8>,
    /// Choice where the standard leaves one: answer to Data_Exchange with no inputs is SC (true)
    /// or an empty DL response (false).
    pub sc_for_empty: bool,
    /// Watchdog honoured by the model (ms); the slave falls back to Wait_Prm when it expires.
    pub honour_watchdog: bool,
    /// Response status of the answers to FDL status requests (0 = OK; a station may also answer
    /// RR, UE, RS ... and is alive all the same).
    #[serde(default)]
    pub fdl_status_code: u8,
    /// Input data made of bytes that look like frame delimiters (0x10 0x68 0xA2 0xDC 0xE5 0x16):
    /// after any loss of synchronisation the receivers find "telegrams" inside the payload.
    #[serde(default)]
    pub delimiter_payload: bool,
    /// The peer encodes every data telegram with the variable-length start delimiter (SD2), also
    /// those that fit SD1 / SD3: legal on the wire, never produced by profirust's own serialiser.
    #[serde(default)]
    pub sd2_always: bool,
    /// Bits OR-ed into the first two status bytes of every diagnostics reply: bits a slave may
    /// report that say nothing about its readiness (Master_Lock, Invalid_Slave_Response,
    /// Station_Non_Existent, Deactivated, the reserved bit).
    #[serde(default)]
    pub odd_status: (u8, u8),
}

#[derive(Serialize, Deserialize, Clone, Debug)]
pub struct AdvCfg {
    /// Address alphabet the adversary draws from.
    pub addrs: Vec<u8>,
    /// Per-mille probability that it follows the protocol at a decision point.
    pub coop_pm: u32,
    /// Mean distance between spontaneous actions in bit times.
    pub gap_bits: u32,
    pub until_us: u64,
    /// Plays the ring partner (answers GAP polls as ready master, takes and returns the token).
    pub partner: bool,
    /// Optional explicit script: (delay in bits after previous action or bus idle, bytes).
    #[serde(default)]
    pub script: Vec<AdvStep>,
}

#[derive(Serialize, Deserialize, Clone, Debug)]
pub struct AdvStep {
    /// Wait until the bus has been idle for this many bits (measured from the end of the last
    /// transmission, or from the previous step if the bus was idle anyway).
    pub idle_bits: u32,
    pub bytes: Vec<u8>,
}

// ------------------------------------------------------------------------------------------
// Faults

#[derive(Serialize, Deserialize, Clone, Debug, PartialEq, Eq)]
pub enum TxClass {
    Any,
    Token,
    TokenTo(u8),
    Request,
    Reply,
    StatusRequest,
    StatusReply,
    DpRequest,
    FromReal,
    FromStub,
    /// Token telegrams that start at or after this time (µs).
    TokenAfterUs(u64),
}

#[derive(Serialize, Deserialize, Clone, Debug)]
pub enum Trigger {
    /// Global time in µs.
    At(u64),
    /// On the n-th (0-based) transmission matching the class, counted over the whole run.
    NthTx { n: u32, class: TxClass },
}

#[derive(Serialize, Deserialize, Clone, Debug)]
pub enum FaultKind {
    // wire (need an NthTx trigger)
    Drop,
    RxDrop { node: usize },
    BitFlip { byte: u16, bit: u8 },
    Subst { byte: u16, val: u8 },
    Truncate { keep: u16 },
    Dup { node: usize },
    /// The telegram reaches nobody and a lone 0xE5 appears on the bus shortly after it (what is
    /// left of a garbled frame): a short confirmation has no address and no checksum.
    LostWithStraySc,
    /// Adversarial transmission starting `after_chars` characters into the matched telegram.
    Collide { after_chars: u16, bytes: Vec<u8> },
    /// Bytes on the (hopefully idle) bus at an absolute time.
    Noise { bytes: Vec<u8> },
    /// Random wire faults on every transmission until `until_us` (per-mille rates).
    Storm {
        until_us: u64,
        drop_pm: u32,
        flip_pm: u32,
        rxdrop_pm: u32,
        trunc_pm: u32,
        dup_pm: u32,
        seed: u64,
    },
    // stations
    Crash { station: usize, restart_after_us: Option<u64> },
    Stall { station: usize, us: u64 },
    GoOffline { station: usize },
    GoOnline { station: usize },
    ClockJump { station: usize, delta_us: i64 },
    /// Partition on a bus, receive side: the station hears nothing for this long (stub line broken,
    /// receiver disabled); its own transmissions still reach the others.
    Deaf { station: usize, us: u64 },
    /// Partition on a bus, transmit side: what the station sends reaches nobody for this long; it
    /// still hears the others.
    Mute { station: usize, us: u64 },
    // slaves
    SlavePower { slave: usize, on: bool },
    /// The next `count` replies of the slave are replaced by `shape`.
    SlaveByz { slave: usize, shape: ByzShape, count: u8 },
    /// Diagnostics flag faults: the slave reports the flag in its next `count` diagnostics.
    SlaveFlag { slave: usize, flag: SlaveFlagKind, count: u8 },
    /// The slave's watchdog "expires" now (falls back to Wait_Prm).
    SlaveReset { slave: usize },
    // user
    UserDiag { station: usize, app: usize, periph: usize },
}

#[derive(Serialize, Deserialize, Clone, Debug, PartialEq, Eq)]
pub enum SlaveFlagKind {
    PrmFault,
    CfgFault,
    NotReady,
    PrmReq,
    StatDiag,
}

#[derive(Serialize, Deserialize, Clone, Debug, PartialEq, Eq)]
pub enum ByzShape {
    Silent,
    /// Reply after the slot time has expired.
    Late,
    WrongSsap,
    WrongDsap,
    NoSaps,
    ShortPdu,
    LongPdu,
    EmptyPdu,
    Status(u8),
    ScInsteadOfData,
    DataInsteadOfSc,
    WrongSource(u8),
    WrongDest(u8),
    Token,
    Request,
    Garbage(Vec<u8>),
    /// Valid reply immediately followed (same transmission) by extra bytes.
    Trailing(Vec<u8>),
    /// The reply is cut off after this many bytes (at least 1, less than the whole): an incomplete
    /// telegram stays in the receivers' buffers.
    Truncated(u8),
    /// The next diagnostics reply claims that the station is ready for data exchange (no fault, no
    /// parameter request, not 'not ready') whatever its real state; replies to other services
    /// pass unchanged and leave the shape pending.
    ReadyDiag,
    /// Diagnostics reply with these extended-diagnostics bytes.
    ExtDiag(Vec<u8>),
    /// A damaged telegram (wrong checksum) whose payload contains a complete, valid copy of the
    /// reply that was due, with different data: a receiver that re-synchronises inside a damaged
    /// telegram would take the inner bytes for the reply.
    Nested,
}

#[derive(Serialize, Deserialize, Clone, Debug)]
pub struct Fault {
    pub trig: Trigger,
    pub kind: FaultKind,
    /// Station / slave / user faults fire this long after their trigger (wire faults: ignored).
    #[serde(default)]
    pub delay_us: u64,
}
