//! R1 — independent reference codec for PROFIBUS FDL frames (DESIGN §3).
//!
//! Written from the frame format, not from profirust's `fdl::telegram`.  The decoder is
//! *maximally eager*: it answers `NeedMore` iff the buffer is a proper prefix of at least one
//! valid frame, `Bad` as soon as no valid frame can start with the buffer.

use serde::{Deserialize, Serialize};

pub const SD1: u8 = 0x10;
pub const SD2: u8 = 0x68;
pub const SD3: u8 = 0xA2;
pub const SD4: u8 = 0xDC;
pub const ED: u8 = 0x16;
pub const SC: u8 = 0xE5;

#[derive(Clone, Debug, PartialEq, Eq, Serialize, Deserialize)]
pub enum Frame {
    Token {
        da: u8,
        sa: u8,
    },
    Sc,
    Data {
        da: u8,
        sa: u8,
        dsap: Option<u8>,
        ssap: Option<u8>,
        fc: u8,
        pdu: Vec<u8>,
    },
}

#[derive(Clone, Debug, PartialEq, Eq)]
pub enum Dec {
    Ok(Frame, usize),
    NeedMore,
    Bad,
}

/// Request types of the function code (bit 6 set), value = `fc & 0x8F`.
pub fn request_type_valid(code: u8) -> bool {
    matches!(code, 0x80 | 0 | 3 | 4 | 5 | 6 | 7 | 9 | 12 | 13 | 14 | 15)
}

/// Does a request of this type expect an acknowledgement / response?
pub fn request_expects_reply(code: u8) -> bool {
    matches!(code, 3 | 5 | 7 | 9 | 12 | 13 | 14 | 15)
}

pub fn response_status_valid(code: u8) -> bool {
    matches!(code, 0 | 1 | 2 | 3 | 8 | 9 | 10 | 12 | 13)
}

pub fn fc_valid(fc: u8) -> bool {
    if fc & 0x40 != 0 {
        request_type_valid(fc & 0x8F)
    } else {
        response_status_valid(fc & 0x0F)
    }
}

#[derive(Clone, Copy, Debug, PartialEq, Eq)]
pub enum Fc {
    Request { fcv: bool, fcb: bool, req: u8 },
    Response { state: u8, status: u8 },
}

pub fn fc_decode(fc: u8) -> Fc {
    if fc & 0x40 != 0 {
        Fc::Request {
            fcv: fc & 0x10 != 0,
            fcb: fc & 0x20 != 0,
            req: fc & 0x8F,
        }
    } else {
        Fc::Response {
            state: (fc >> 4) & 3,
            status: fc & 0x0F,
        }
    }
}

pub const REQ_SDN_LOW: u8 = 4;
pub const REQ_SDN_HIGH: u8 = 6;
pub const REQ_FDL_STATUS: u8 = 9;
pub const REQ_SRD_LOW: u8 = 12;
pub const REQ_SRD_HIGH: u8 = 13;

pub fn fc_request(fcv: bool, fcb: bool, req: u8) -> u8 {
    0x40 | req | (u8::from(fcv) << 4) | (u8::from(fcb) << 5)
}

pub fn fc_response(state: u8, status: u8) -> u8 {
    ((state & 3) << 4) | (status & 0x0F)
}

impl Frame {
    pub fn sa(&self) -> Option<u8> {
        match self {
            Frame::Token { sa, .. } => Some(*sa),
            Frame::Data { sa, .. } => Some(*sa),
            Frame::Sc => None,
        }
    }
    pub fn da(&self) -> Option<u8> {
        match self {
            Frame::Token { da, .. } => Some(*da),
            Frame::Data { da, .. } => Some(*da),
            Frame::Sc => None,
        }
    }
    pub fn is_token(&self) -> bool {
        matches!(self, Frame::Token { .. })
    }
    pub fn fc(&self) -> Option<Fc> {
        match self {
            Frame::Data { fc, .. } => Some(fc_decode(*fc)),
            _ => None,
        }
    }
    /// SC or a data frame with a response function code.
    pub fn is_reply(&self) -> bool {
        match self {
            Frame::Sc => true,
            Frame::Data { fc, .. } => fc & 0x40 == 0,
            Frame::Token { .. } => false,
        }
    }
    pub fn is_request(&self) -> bool {
        matches!(self, Frame::Data { fc, .. } if fc & 0x40 != 0)
    }
    /// Request that expects a reply: returns the request type.
    pub fn request_expecting_reply(&self) -> Option<u8> {
        match self.fc() {
            Some(Fc::Request { req, .. }) if request_expects_reply(req) => Some(req),
            _ => None,
        }
    }
    pub fn is_fdl_status_request(&self) -> bool {
        matches!(self.fc(), Some(Fc::Request { req, .. }) if req == REQ_FDL_STATUS)
    }

    /// Short class used in abstract traces / fingerprints.
    pub fn class(&self) -> u8 {
        match self {
            Frame::Token { da, sa } => {
                if da == sa {
                    1
                } else {
                    2
                }
            }
            Frame::Sc => 3,
            Frame::Data { fc, dsap, .. } => match fc_decode(*fc) {
                Fc::Request { req, .. } => {
                    if req == REQ_FDL_STATUS {
                        4
                    } else {
                        match dsap {
                            None => 5,
                            Some(60) => 6,
                            Some(61) => 7,
                            Some(62) => 8,
                            Some(58) => 9,
                            Some(_) => 10,
                        }
                    }
                }
                Fc::Response { state, status } => 16 + (state << 4 | status) % 64,
            },
        }
    }

    pub fn short(&self) -> String {
        match self {
            Frame::Token { da, sa } => format!("TOK {sa}->{da}"),
            Frame::Sc => "SC".to_string(),
            Frame::Data {
                da,
                sa,
                dsap,
                ssap,
                fc,
                pdu,
            } => {
                let f = match fc_decode(*fc) {
                    Fc::Request { fcv, fcb, req } => {
                        format!("REQ{req}{}{}", if fcv { "v" } else { "-" }, if fcb { "b" } else { "-" })
                    }
                    Fc::Response { state, status } => format!("RSP{state}/{status}"),
                };
                let sap = match (dsap, ssap) {
                    (None, None) => String::new(),
                    (d, s) => format!(
                        " [{}<-{}]",
                        d.map(|x| x.to_string()).unwrap_or("-".into()),
                        s.map(|x| x.to_string()).unwrap_or("-".into())
                    ),
                };
                format!("{f} {sa}->{da}{sap} n={}", pdu.len())
            }
        }
    }
}

pub fn encode(f: &Frame) -> Vec<u8> {
    match f {
        Frame::Token { da, sa } => vec![SD4, *da, *sa],
        Frame::Sc => vec![SC],
        Frame::Data {
            da,
            sa,
            dsap,
            ssap,
            fc,
            pdu,
        } => {
            let mut body = Vec::with_capacity(pdu.len() + 5);
            body.push(da | if dsap.is_some() { 0x80 } else { 0 });
            body.push(sa | if ssap.is_some() { 0x80 } else { 0 });
            body.push(*fc);
            if let Some(d) = dsap {
                body.push(*d);
            }
            if let Some(s) = ssap {
                body.push(*s);
            }
            body.extend_from_slice(pdu);
            let fcs = body.iter().fold(0u8, |a, b| a.wrapping_add(*b));
            let le = body.len();
            let mut out = Vec::with_capacity(le + 6);
            match le {
                3 => out.push(SD1),
                11 => out.push(SD3),
                _ => {
                    assert!(le <= 255);
                    out.extend_from_slice(&[SD2, le as u8, le as u8, SD2]);
                }
            }
            out.extend_from_slice(&body);
            out.push(fcs);
            out.push(ED);
            out
        }
    }
}

/// Encode a data frame with the variable-length header (SD2) even where the fixed-length forms
/// SD1 / SD3 would be used normally: valid on the wire, never produced by profirust itself.
pub fn encode_sd2_forced(f: &Frame) -> Vec<u8> {
    let canonical = encode(f);
    match canonical.first() {
        Some(&SD1) | Some(&SD3) => {
            let body = &canonical[1..canonical.len() - 2];
            let le = body.len() as u8;
            let mut out = vec![SD2, le, le, SD2];
            out.extend_from_slice(body);
            out.extend_from_slice(&canonical[canonical.len() - 2..]);
            out
        }
        _ => canonical,
    }
}

/// Decode the first frame of `buf`.
pub fn decode(buf: &[u8]) -> Dec {
    if buf.is_empty() {
        return Dec::NeedMore;
    }
    match buf[0] {
        SC => Dec::Ok(Frame::Sc, 1),
        SD4 => {
            if buf.len() < 3 {
                Dec::NeedMore
            } else {
                Dec::Ok(
                    Frame::Token {
                        da: buf[1],
                        sa: buf[2],
                    },
                    3,
                )
            }
        }
        SD1 => decode_body(&buf[1..], 3, 1),
        SD3 => decode_body(&buf[1..], 11, 1),
        SD2 => {
            if buf.len() >= 2 && buf[1] < 3 {
                return Dec::Bad;
            }
            if buf.len() >= 3 && buf[2] != buf[1] {
                return Dec::Bad;
            }
            if buf.len() >= 4 && buf[3] != SD2 {
                return Dec::Bad;
            }
            if buf.len() < 4 {
                return Dec::NeedMore;
            }
            decode_body(&buf[4..], usize::from(buf[1]), 4)
        }
        _ => Dec::Bad,
    }
}

/// `b` starts at DA; `le` = number of bytes covered by the checksum (DA SA FC [SAPs] PDU);
/// the frame continues with FCS and ED.  `hdr` = bytes before DA.
fn decode_body(b: &[u8], le: usize, hdr: usize) -> Dec {
    let avail = b.len();
    let mut saps = 0usize;
    if avail >= 1 && b[0] & 0x80 != 0 {
        saps += 1;
    }
    if avail >= 2 && b[1] & 0x80 != 0 {
        saps += 1;
    }
    if 3 + saps > le {
        return Dec::Bad;
    }
    if avail >= 3 && !fc_valid(b[2]) {
        return Dec::Bad;
    }
    if avail > le {
        let fcs = b[..le].iter().fold(0u8, |a, x| a.wrapping_add(*x));
        if b[le] != fcs {
            return Dec::Bad;
        }
    }
    if avail > le + 1 && b[le + 1] != ED {
        return Dec::Bad;
    }
    if avail < le + 2 {
        return Dec::NeedMore;
    }
    let has_dsap = b[0] & 0x80 != 0;
    let has_ssap = b[1] & 0x80 != 0;
    let mut i = 3;
    let dsap = if has_dsap {
        i += 1;
        Some(b[i - 1])
    } else {
        None
    };
    let ssap = if has_ssap {
        i += 1;
        Some(b[i - 1])
    } else {
        None
    };
    Dec::Ok(
        Frame::Data {
            da: b[0] & 0x7F,
            sa: b[1] & 0x7F,
            dsap,
            ssap,
            fc: b[2],
            pdu: b[i..le].to_vec(),
        },
        hdr + le + 2,
    )
}

/// Total length announced by the first bytes of `buf`, if it can be known yet
/// (used for the "late rejection only while shorter than the announced frame" rule).
pub fn announced_len(buf: &[u8]) -> Option<usize> {
    match buf.first()? {
        &SC => Some(1),
        &SD4 => Some(3),
        &SD1 => Some(6),
        &SD3 => Some(14),
        &SD2 => buf.get(1).map(|le| usize::from(*le) + 6),
        _ => None,
    }
}

/// Decode a buffer that must hold exactly one frame (how a stub node's UART sees a transmission
/// framed by idle line).
pub fn decode_exact(buf: &[u8]) -> Option<Frame> {
    match decode(buf) {
        Dec::Ok(f, n) if n == buf.len() => Some(f),
        _ => None,
    }
}

/// Is the whole byte string a sequence of valid frames?
pub fn decode_exact_multi(mut buf: &[u8]) -> bool {
    if buf.is_empty() {
        return false;
    }
    while !buf.is_empty() {
        match decode(buf) {
            Dec::Ok(_, n) => buf = &buf[n..],
            _ => return false,
        }
    }
    true
}

/// Convert a telegram decoded by profirust into a `Frame` (plain data conversion).
pub fn from_profirust(t: &profirust::fdl::Telegram) -> Frame {
    use profirust::fdl::Telegram;
    match t {
        Telegram::Token(t) => Frame::Token { da: t.da, sa: t.sa },
        Telegram::ShortConfirmation(_) => Frame::Sc,
        Telegram::Data(d) => Frame::Data {
            da: d.h.da,
            sa: d.h.sa,
            dsap: d.h.dsap,
            ssap: d.h.ssap,
            fc: d.h.fc.to_byte(),
            pdu: d.pdu.to_vec(),
        },
    }
}

#[cfg(test)]
mod tests {
    use super::*;
    #[test]
    fn roundtrip() {
        for n in [0usize, 1, 7, 8, 9, 100, 244] {
            let f = Frame::Data {
                da: 5,
                sa: 2,
                dsap: Some(61),
                ssap: Some(62),
                fc: fc_request(true, false, REQ_SRD_LOW),
                pdu: (0..n).map(|x| x as u8).collect(),
            };
            let e = encode(&f);
            assert_eq!(decode(&e), Dec::Ok(f.clone(), e.len()));
            for k in 0..e.len() {
                assert_eq!(decode(&e[..k]), Dec::NeedMore, "prefix {k} of {n}");
            }
        }
    }
}
