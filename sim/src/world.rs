//! The discrete-event world (DESIGN §2): one bus, real stations with their poll processes and
//! user processes, stub slaves, an adversary, a fault injector — all driven from one seed.

use crate::apps::{AppCall, AppKind, CallLog, Probe, UserAct};
use crate::bus::{Bus, NodeId, BIT, CHAR};
use crate::phy::{HarnessPhy, RxEvent, TxDone};
use crate::rng::{derive, Fnv, Rng};
use crate::scenario::*;
use crate::slave::Slave;
use crate::wire::{self, Fc, Frame};
use profirust::fdl::{FdlActiveStation, FdlApplication, ParametersBuilder};
use profirust::time::Instant;
use std::cell::RefCell;
use std::collections::{BTreeMap, BinaryHeap};
use std::rc::Rc;

#[derive(Clone, Debug, serde::Serialize, serde::Deserialize)]
pub struct Violation {
    pub property: String,
    pub oracle: String,
    /// Signature class: what the shrinker keeps constant and known findings match on.
    pub sig: String,
    pub t_us: u64,
    pub station: Option<u8>,
    pub detail: String,
}

#[derive(Default, Clone, Debug)]
pub struct Stats {
    pub c: BTreeMap<String, u64>,
    pub maxf: BTreeMap<String, f64>,
}

impl Stats {
    pub fn inc(&mut self, k: &str) {
        self.add(k, 1);
    }
    pub fn add(&mut self, k: &str, n: u64) {
        if let Some(v) = self.c.get_mut(k) {
            *v += n;
        } else {
            self.c.insert(k.to_string(), n);
        }
    }
    pub fn get(&self, k: &str) -> u64 {
        self.c.get(k).copied().unwrap_or(0)
    }
    pub fn max(&mut self, k: &str, v: f64) {
        let e = self.maxf.entry(k.to_string()).or_insert(0.0);
        if v > *e {
            *e = v;
        }
    }
}

#[derive(Clone, Debug, PartialEq, Eq)]
pub struct Snap {
    pub online: bool,
    pub in_ring: bool,
    pub ns: u8,
    pub ps: u8,
    pub ready: bool,
    pub las: u128,
}

impl Snap {
    pub fn of(fdl: &FdlActiveStation) -> Snap {
        let tr = fdl.inspect_token_ring();
        let mut las = 0u128;
        for a in tr.iter_active_stations() {
            las |= 1u128 << a;
        }
        Snap {
            online: fdl.connectivity_state().is_online(),
            in_ring: fdl.is_in_ring(),
            ns: tr.next_station(),
            ps: tr.previous_station(),
            ready: tr.ready_for_ring(),
            las,
        }
    }
    pub fn dead() -> Snap {
        Snap {
            online: false,
            in_ring: false,
            ns: 0,
            ps: 0,
            ready: false,
            las: 0,
        }
    }
}

#[derive(Clone, Debug)]
pub struct PanicInfo {
    pub msg: String,
    pub loc: String,
}

#[derive(Clone, Debug)]
pub struct DpEv {
    pub app: usize,
    pub cycle_completed: bool,
    /// (peripheral index in the app's list, address in the handle, event)
    pub periph: Option<(usize, u8, profirust::dp::PeripheralEvent)>,
}

#[derive(Clone, Debug)]
pub enum ScanEv {
    LiveDiscovered { app: usize, addr: u8, state: u8 },
    LiveLost { app: usize, addr: u8 },
    DpFound { app: usize, addr: u8, ident: u16, master: Option<u8> },
    DpRequery { app: usize, addr: u8, ident: u16, master: Option<u8> },
    DpLost { app: usize, addr: u8 },
}

pub struct PollInfo<'a> {
    pub st: usize,
    pub t: u64,
    pub local_us: i64,
    pub pre: &'a Snap,
    pub post: &'a Snap,
    pub rx: &'a [RxEvent],
    pub txs: &'a [usize],
    pub calls: &'a [AppCall],
    pub contract: &'a [String],
    pub dp_events: &'a [DpEv],
    pub scan_events: &'a [ScanEv],
    pub events_taken: bool,
    /// Second poll at the same instant (buggify).
    pub dup: bool,
    /// Received bytes the PHY showed to the station for the first time in this poll.
    pub new_rx_bytes: usize,
}

#[derive(Clone, Debug)]
pub enum StationEv {
    Online,
    Offline,
    Crash,
    Restart,
    Stall(u64),
    ClockJump(i64),
    /// The station switched itself offline (address collision rule).
    SelfOffline,
}

pub trait Monitor {
    fn name(&self) -> &'static str;
    /// A transmission was started (faults already applied).
    fn on_tx(&mut self, _w: &World, _idx: usize) {}
    /// A transmission is complete.
    fn on_tx_end(&mut self, _w: &World, _idx: usize) {}
    fn on_poll(&mut self, _w: &World, _p: &PollInfo) {}
    fn on_user(&mut self, _w: &World, _st: usize, _act: &UserAct) {}
    fn on_station(&mut self, _w: &World, _st: usize, _ev: &StationEv) {}
    fn on_slave_power(&mut self, _w: &World, _slave: usize, _on: bool) {}
    /// Called once when the run is over (deadline-type oracles).
    fn finish(&mut self, _w: &World) {}
    /// The monitor has seen everything it needs: the run may stop early.
    fn done(&self, _w: &World) -> bool {
        false
    }
    /// Pure observers have no opinion on when a run may stop.
    fn observer(&self) -> bool {
        false
    }
    /// Add this monitor's counters / probes to the run statistics.
    fn report(&self, _w: &World, _s: &mut Stats) {}
}

pub struct StationNode {
    pub cfg: StationCfg,
    pub node: NodeId,
    pub fdl: Option<FdlActiveStation>,
    pub phy: Option<HarnessPhy>,
    pub apps: Vec<Probe>,
    pub log: CallLog,
    pub poll_rng: Rng,
    pub user_rng: Rng,
    pub alive: bool,
    pub ever_online: bool,
    pub polls: u64,
    pub clock_jump_us: i64,
    pub stalled_until: u64,
    /// (app, addr) of the request the station is waiting a reply for, per the call log.
    pub outstanding: Option<(usize, u8)>,
    pub snap: Snap,
    pub generation: u32,
    pub self_offline_seen: bool,
}

#[derive(Clone, Debug, PartialEq, Eq, PartialOrd, Ord)]
enum Ev {
    TxEnd(usize),
    StubSend { node: NodeId, bytes: Vec<u8>, noise: bool },
    Plan(usize, usize),
    SlavePower(usize, bool),
    FaultAt(usize),
    Restart(usize),
    BringOnline(usize),
    Operate(usize, usize),
    AdvWake(u64),
    FaultsStop,
    Poll(usize, u32),
}

#[derive(PartialEq, Eq, PartialOrd, Ord)]
struct QItem {
    t: u64,
    tie: u64,
    seq: u64,
    ev: Ev,
}

pub struct FaultState {
    pub fault: Fault,
    pub seen: u32,
    pub fired: bool,
    /// Triggered, waiting for its delay to pass.
    pub armed: bool,
}

pub struct Storm {
    pub until: u64,
    pub drop_pm: u32,
    pub flip_pm: u32,
    pub rxdrop_pm: u32,
    pub trunc_pm: u32,
    pub dup_pm: u32,
    pub rng: Rng,
}

/// A wire fault that actually fired, in explicit form (for converting storms during shrinking).
#[derive(Clone, Debug)]
pub struct FiredWire {
    pub tx: usize,
    pub kind: FaultKind,
}

pub struct World {
    pub seed: u64,
    pub cfg: WorldCfg,
    pub check: String,
    pub bus: Rc<RefCell<Bus>>,
    pub now: u64,
    q: BinaryHeap<std::cmp::Reverse<QItem>>,
    seq: u64,
    pub stations: Vec<StationNode>,
    pub slaves: Vec<Slave>,
    pub adv: Option<crate::adversary::Adversary>,
    pub adv_node: NodeId,
    pub noise_node: NodeId,
    pub faults: Vec<FaultState>,
    pub storms: Vec<Storm>,
    /// Partition windows per bus node (ticks): receiver deaf / transmitter mute until then.
    pub deaf_until: Vec<u64>,
    pub mute_until: Vec<u64>,
    pub fired_wire: Vec<FiredWire>,
    pub stats: Stats,
    pub violations: RefCell<Vec<Violation>>,
    pub monitors: Vec<Box<dyn Monitor>>,
    pub panic: Option<(usize, PanicInfo)>,
    pub total_polls: u64,
    pub tie_rng: Rng,
    pub trace: Fnv,
    pub fp: Fnv,
    pub tx_count: u32,
    pub stop: bool,
    pub verbose: bool,
    pub last_fault_us: u64,
    /// Application (index) that built the transmission being announced, None for the FDL's own
    /// telegrams (token, GAP poll, status reply) and for stub transmissions.
    pub cur_tx_app: Option<usize>,
    tx_announced: usize,
}

thread_local! {
    pub static LAST_PANIC: RefCell<Option<PanicInfo>> = const { RefCell::new(None) };
}

pub fn install_panic_hook() {
    std::panic::set_hook(Box::new(|info| {
        let msg = if let Some(s) = info.payload().downcast_ref::<&str>() {
            (*s).to_string()
        } else if let Some(s) = info.payload().downcast_ref::<String>() {
            s.clone()
        } else {
            "<non-string panic payload>".to_string()
        };
        let loc = info
            .location()
            .map(|l| format!("{}:{}", l.file(), l.line()))
            .unwrap_or_else(|| "<unknown>".to_string());
        LAST_PANIC.with(|p| *p.borrow_mut() = Some(PanicInfo { msg, loc }));
    }));
}

pub fn build_parameters(baud: u64, c: &StationCfg) -> profirust::fdl::Parameters {
    let mut b = ParametersBuilder::new(c.addr.min(125), baud_enum(baud));
    b.slot_bits(c.slot_bits);
    if c.hsa > c.addr && c.hsa <= 126 {
        b.highest_station_address(c.hsa);
    }
    b.token_rotation_bits(c.ttr);
    b.gap_wait_rotations(c.gap);
    b.max_retry_limit(c.retry);
    b.min_tsdr(c.min_tsdr);
    if let Some(ms) = c.watchdog_ms {
        b.watchdog_timeout(profirust::time::Duration::from_millis(u64::from(ms)));
    }
    let mut p = b.build();
    // Misconfigurations the builder refuses (only generated for C05): set the public fields.
    if !(c.hsa > c.addr && c.hsa <= 126) {
        p.highest_station_address = c.hsa;
    }
    p
}

impl World {
    pub fn new(sc: &Scenario) -> World {
        let cfg = sc.world.clone();
        let seed = sc.seed;
        let bus = Rc::new(RefCell::new(Bus::new(cfg.baud, cfg.collision_garbles, derive(seed, "garble", 0))));
        let mut stations = Vec::new();
        let mut node = 0usize;
        for (i, c) in cfg.stations.iter().enumerate() {
            let log: CallLog = Rc::new(RefCell::new(Vec::new()));
            stations.push(StationNode {
                cfg: c.clone(),
                node,
                fdl: None,
                phy: None,
                apps: Vec::new(),
                log,
                poll_rng: Rng::derived(seed, "poll", i as u64),
                user_rng: Rng::derived(seed, "user", i as u64),
                alive: false,
                ever_online: false,
                polls: 0,
                clock_jump_us: 0,
                stalled_until: 0,
                outstanding: None,
                snap: Snap::dead(),
                generation: 0,
                self_offline_seen: false,
            });
            node += 1;
        }
        let slot_bits = cfg.stations.first().map(|s| u32::from(s.slot_bits)).unwrap_or(100);
        let mut slaves = Vec::new();
        for (i, c) in cfg.slaves.iter().enumerate() {
            slaves.push(Slave::new(c, node, derive(seed, "slave", i as u64), slot_bits, cfg.baud));
            node += 1;
        }
        let adv_node = node;
        let noise_node = node + 1;
        let adv = cfg
            .adversary
            .as_ref()
            .map(|a| crate::adversary::Adversary::new(a, adv_node, derive(seed, "adv", 0), &cfg));
        let mut w = World {
            seed,
            check: sc.check.clone(),
            bus,
            now: 0,
            q: BinaryHeap::new(),
            seq: 0,
            stations,
            slaves,
            adv,
            adv_node,
            noise_node,
            faults: Vec::new(),
            storms: Vec::new(),
            deaf_until: vec![0; 64],
            mute_until: vec![0; 64],
            fired_wire: Vec::new(),
            stats: Stats::default(),
            violations: RefCell::new(Vec::new()),
            monitors: Vec::new(),
            panic: None,
            total_polls: 0,
            tie_rng: Rng::derived(seed, "tie", 0),
            trace: Fnv::new(),
            fp: Fnv::new(),
            tx_count: 0,
            stop: false,
            verbose: false,
            last_fault_us: 0,
            cur_tx_app: None,
            tx_announced: 0,
            cfg,
        };
        // plans
        for i in 0..w.stations.len() {
            for (k, (t, _)) in w.stations[i].cfg.plan.clone().iter().enumerate() {
                let tt = w.us(*t);
                w.push(tt, 0, Ev::Plan(i, k));
            }
            for (a, app) in w.stations[i].cfg.apps.clone().iter().enumerate() {
                if let AppCfg::Dp(d) = app {
                    if d.operate_at_us > 0 {
                        let tt = w.us(d.operate_at_us);
                        w.push(tt, 0, Ev::Operate(i, a));
                    }
                }
            }
        }
        for i in 0..w.slaves.len() {
            for (t, on) in w.slaves[i].cfg.power.clone() {
                let tt = w.us(t);
                w.push(tt, 0, Ev::SlavePower(i, on));
            }
        }
        for (k, f) in sc.faults.iter().enumerate() {
            if let Trigger::At(t) = f.trig {
                let tt = w.us(t + f.delay_us);
                w.push(tt, 1, Ev::FaultAt(k));
            }
            w.faults.push(FaultState {
                fault: f.clone(),
                seen: 0,
                fired: false,
                armed: false,
            });
        }
        if w.adv.is_some() {
            w.push(0, 2, Ev::AdvWake(0));
        }
        if w.cfg.fault_deadline_us > 0 {
            let tt = w.us(w.cfg.fault_deadline_us);
            w.push(tt, 3, Ev::FaultsStop);
        }
        w
    }

    pub fn us(&self, us: u64) -> u64 {
        us * self.cfg.baud
    }
    pub fn to_us(&self, ticks: u64) -> u64 {
        ticks / self.cfg.baud
    }
    pub fn now_us(&self) -> u64 {
        self.now / self.cfg.baud
    }
    pub fn bit_ticks(bits: u64) -> u64 {
        bits * BIT
    }
    /// Duration of `bits` bit times in ticks.
    pub fn bits(&self, bits: u64) -> u64 {
        bits * BIT
    }
    pub fn slot_ticks(&self, st: usize) -> u64 {
        u64::from(self.stations[st].cfg.slot_bits) * BIT
    }

    fn push(&mut self, t: u64, tie: u64, ev: Ev) {
        self.seq += 1;
        self.q.push(std::cmp::Reverse(QItem {
            t,
            tie,
            seq: self.seq,
            ev,
        }));
    }

    pub fn violate(&self, property: &str, oracle: &str, sig: &str, station: Option<u8>, detail: String) {
        let mut v = self.violations.borrow_mut();
        if v.len() < 64 {
            v.push(Violation {
                property: property.to_string(),
                oracle: oracle.to_string(),
                sig: sig.to_string(),
                t_us: self.now_us(),
                station,
                detail,
            });
        }
    }

    pub fn has_violation(&self) -> bool {
        !self.violations.borrow().is_empty()
    }

    pub fn addr_of_node(&self, node: NodeId) -> Option<u8> {
        if node < self.stations.len() {
            Some(self.stations[node].cfg.addr)
        } else if node < self.stations.len() + self.slaves.len() {
            Some(self.slaves[node - self.stations.len()].cfg.addr)
        } else {
            None
        }
    }
    pub fn is_real(&self, node: NodeId) -> bool {
        node < self.stations.len()
    }
    pub fn station_by_addr(&self, addr: u8) -> Option<usize> {
        self.stations.iter().position(|s| s.cfg.addr == addr)
    }

    pub fn local_us(&self, st: usize, t: u64) -> i64 {
        let s = &self.stations[st];
        let g = (t / self.cfg.baud) as i64;
        let skew = (i128::from(g) * i128::from(s.cfg.skew_ppm) / 1_000_000) as i64;
        s.cfg.clock_off_us + g + skew + s.clock_jump_us
    }

    // --------------------------------------------------------------------------------------
    // station life cycle

    fn create_station(&mut self, i: usize) {
        let params = build_parameters(self.cfg.baud, &self.stations[i].cfg);
        let seed = self.seed;
        let s = &mut self.stations[i];
        s.generation += 1;
        s.fdl = Some(FdlActiveStation::new(params));
        s.apps.clear();
        for (a, ac) in s.cfg.apps.iter().enumerate() {
            let mut p = Probe::new(a, ac, derive(seed, "app", (i * 16 + a) as u64 + u64::from(s.generation) * 4096), s.log.clone());
            if let (AppCfg::Dp(dc), Some(d)) = (ac, p.dp_mut()) {
                if dc.operate_at_us == 0 {
                    d.master.enter_operate();
                    d.operate = true;
                }
            }
            s.apps.push(p);
        }
        s.alive = true;
        s.outstanding = None;
        s.log.borrow_mut().clear();
    }

    /// Bring a station online at a telegram boundary: if a transmission is in progress the
    /// station's PHY is enabled when it ends (DESIGN §5.3 — a UART enabled in the middle of a
    /// frame sees line activity / framing errors, not silence).
    fn request_online(&mut self, i: usize) {
        let busy = self.bus.borrow().busy_until(self.now);
        match busy {
            Some((_, end)) if end > self.now => self.push(end, 0, Ev::BringOnline(i)),
            _ => self.go_online(i),
        }
    }

    fn go_online(&mut self, i: usize) {
        if !self.stations[i].alive {
            self.create_station(i);
        }
        let t = self.now;
        let bus = self.bus.clone();
        let s = &mut self.stations[i];
        if s.ever_online {
            if let Some(n) = s.cfg.rejoin_keep_apps {
                if usize::from(n) < s.apps.len() {
                    s.apps.truncate(usize::from(n));
                    self.stats.inc("user.application_list_shortened_while_offline");
                }
            }
        }
        let mut phy = HarnessPhy::new(bus, s.node, t);
        phy.tx_done = match s.cfg.tx_done {
            TxDoneCfg::Exact => TxDone::Exact,
            TxDoneCfg::LateUs(us) => TxDone::Late(us * self.cfg.baud),
            TxDoneCfg::Early => TxDone::Early,
        };
        phy.rx_chunk = s.cfg.rx_chunk_us * self.cfg.baud;
        phy.tx_lag_max = s.cfg.tx_lag_us * self.cfg.baud;
        phy.tx_lag_seed = self.cfg.end_us ^ (u64::from(s.cfg.addr) << 32) ^ s.cfg.tx_lag_us;
        if !s.ever_online && !s.cfg.stale_rx.is_empty() {
            phy.preload_rx(&s.cfg.stale_rx);
            self.stats.inc("fault.stale_rx_at_online");
        }
        s.phy = Some(phy);
        // a new poll process starts; any older one of this station ends
        s.generation += 1;
        s.fdl.as_mut().unwrap().set_online();
        let first = !s.ever_online;
        s.ever_online = true;
        s.self_offline_seen = false;
        s.snap = Snap::of(s.fdl.as_ref().unwrap());
        let gen = s.generation;
        // first poll: within one poll period
        let d = s.poll_rng.range(0, s.cfg.p_max_us);
        let _ = first;
        let tt = t + d * self.cfg.baud;
        let tie = self.tie_rng.next_u64() | 8;
        self.push(tt, tie, Ev::Poll(i, gen));
        self.notify_station(i, &StationEv::Online);
    }

    fn go_offline(&mut self, i: usize) {
        if let Some(f) = self.stations[i].fdl.as_mut() {
            f.set_offline();
            self.stations[i].snap = Snap::of(self.stations[i].fdl.as_ref().unwrap());
            self.stations[i].outstanding = None;
            self.notify_station(i, &StationEv::Offline);
        }
    }

    fn crash(&mut self, i: usize, restart_after_us: Option<u64>) {
        if !self.stations[i].alive {
            return;
        }
        let node = self.stations[i].node;
        let t = self.now;
        if self.bus.borrow_mut().cut_transmission(node, t) {
            self.stats.inc("fault.crash_mid_transmission");
        }
        let s = &mut self.stations[i];
        s.fdl = None;
        s.phy = None;
        s.apps.clear();
        s.alive = false;
        s.generation += 1;
        s.snap = Snap::dead();
        s.outstanding = None;
        self.notify_station(i, &StationEv::Crash);
        if let Some(d) = restart_after_us {
            let tt = t + d * self.cfg.baud;
            self.push(tt, 0, Ev::Restart(i));
        }
    }

    fn notify_station(&mut self, i: usize, ev: &StationEv) {
        let mut mons = std::mem::take(&mut self.monitors);
        for m in mons.iter_mut() {
            m.on_station(self, i, ev);
        }
        self.monitors = mons;
    }

    // --------------------------------------------------------------------------------------
    // transmissions and wire faults

    fn class_matches(&self, class: &TxClass, idx: usize) -> bool {
        let bus = self.bus.borrow();
        let tx = &bus.txs[idx];
        let f = tx.frame.as_ref();
        match class {
            TxClass::Any => true,
            TxClass::Token => matches!(f, Some(Frame::Token { .. })),
            TxClass::TokenTo(a) => matches!(f, Some(Frame::Token { da, .. }) if da == a),
            TxClass::Request => f.map(|f| f.is_request()).unwrap_or(false),
            TxClass::Reply => f.map(|f| f.is_reply()).unwrap_or(false),
            TxClass::StatusRequest => f.map(|f| f.is_fdl_status_request()).unwrap_or(false),
            TxClass::StatusReply => {
                matches!(f, Some(Frame::Data { fc, dsap: None, ssap: None, pdu, .. }) if fc & 0x40 == 0 && pdu.is_empty())
            }
            TxClass::DpRequest => {
                matches!(f, Some(fr @ Frame::Data { .. }) if fr.request_expecting_reply().is_some() && !fr.is_fdl_status_request())
            }
            TxClass::FromReal => tx.real,
            TxClass::FromStub => !tx.real && !tx.noise,
            TxClass::TokenAfterUs(t) => matches!(f, Some(Frame::Token { .. })) && tx.start >= self.us(*t),
        }
    }

    fn apply_wire_fault(&mut self, idx: usize, kind: &FaultKind) -> bool {
        let mut bus = self.bus.borrow_mut();
        let n_nodes = self.noise_node + 1;
        let tx = &mut bus.txs[idx];
        let len = tx.seen.len();
        match kind {
            FaultKind::Drop => {
                tx.lost_for = u64::MAX;
                tx.damaged = true;
                self.stats.inc("fault.drop");
            }
            FaultKind::RxDrop { node } => {
                tx.lost_for |= 1 << (node % n_nodes);
                self.stats.inc("fault.rx_drop");
            }
            FaultKind::BitFlip { byte, bit } => {
                if len == 0 {
                    return false;
                }
                let i = usize::from(*byte) % len;
                tx.seen[i] ^= 1 << (bit % 8);
                tx.damaged = true;
                self.stats.inc("fault.bitflip");
            }
            FaultKind::Subst { byte, val } => {
                if len == 0 {
                    return false;
                }
                let i = usize::from(*byte) % len;
                if tx.seen[i] == *val {
                    tx.seen[i] = val.wrapping_add(1);
                } else {
                    tx.seen[i] = *val;
                }
                tx.damaged = true;
                self.stats.inc("fault.byte_subst");
            }
            FaultKind::Truncate { keep } => {
                if len <= 1 {
                    return false;
                }
                let k = usize::from(*keep) % len;
                tx.seen.truncate(k);
                tx.damaged = true;
                self.stats.inc("fault.truncate");
            }
            FaultKind::Dup { node } => {
                tx.dup_for |= 1 << (node % n_nodes);
                self.stats.inc("fault.duplicate");
            }
            _ => return false,
        }
        true
    }

    /// Called for every new transmission, right after it was appended to the bus.
    fn announce_tx(&mut self, idx: usize) {
        debug_assert_eq!(idx, self.tx_announced);
        self.tx_announced = idx + 1;
        self.tx_count += 1;
        let (start, end, noise) = {
            let bus = self.bus.borrow();
            let tx = &bus.txs[idx];
            (tx.start, tx.end(), tx.noise)
        };
        // explicit faults with NthTx triggers
        if !noise {
            for k in 0..self.faults.len() {
                if self.faults[k].fired {
                    continue;
                }
                let (n, class) = match &self.faults[k].fault.trig {
                    Trigger::NthTx { n, class } => (*n, class.clone()),
                    _ => continue,
                };
                if !self.class_matches(&class, idx) {
                    continue;
                }
                let seen = self.faults[k].seen;
                self.faults[k].seen += 1;
                if seen != n {
                    continue;
                }
                self.faults[k].fired = true;
                let kind = self.faults[k].fault.kind.clone();
                let delay = self.faults[k].fault.delay_us;
                let wire = matches!(
                    kind,
                    FaultKind::LostWithStraySc | FaultKind::Drop | FaultKind::RxDrop { .. } | FaultKind::BitFlip { .. } | FaultKind::Subst { .. } | FaultKind::Truncate { .. } | FaultKind::Dup { .. } | FaultKind::Collide { .. }
                );
                if delay > 0 && !wire {
                    self.faults[k].armed = true;
                    let tt = self.now + self.us(delay);
                    self.push(tt, 1, Ev::FaultAt(k));
                } else {
                    self.fire_fault(&kind, Some(idx));
                }
            }
            // storms
            for s in 0..self.storms.len() {
                if start >= self.storms[s].until {
                    continue;
                }
                let st = &mut self.storms[s];
                let r = st.rng.below(1000) as u32;
                let len = (end - start) / CHAR;
                let mut acc = st.drop_pm;
                let kind = if r < acc {
                    Some(FaultKind::Drop)
                } else if r < {
                    acc += st.flip_pm;
                    acc
                } {
                    Some(FaultKind::BitFlip {
                        byte: st.rng.below(len.max(1)) as u16,
                        bit: st.rng.below(8) as u8,
                    })
                } else if r < {
                    acc += st.rxdrop_pm;
                    acc
                } {
                    Some(FaultKind::RxDrop {
                        node: st.rng.below(self.noise_node as u64) as usize,
                    })
                } else if r < {
                    acc += st.trunc_pm;
                    acc
                } {
                    Some(FaultKind::Truncate {
                        keep: st.rng.below(len.max(1)) as u16,
                    })
                } else if r < {
                    acc += st.dup_pm;
                    acc
                } {
                    Some(FaultKind::Dup {
                        node: st.rng.below(self.noise_node as u64) as usize,
                    })
                } else {
                    None
                };
                if let Some(kind) = kind {
                    if self.apply_wire_fault(idx, &kind) {
                        self.fired_wire.push(FiredWire { tx: idx, kind });
                        self.last_fault_us = self.now_us();
                    }
                }
            }
        }
        // partition windows
        {
            let mut bus = self.bus.borrow_mut();
            let tx = &mut bus.txs[idx];
            let sender = tx.sender;
            if sender < 64 && self.mute_until[sender] > start {
                tx.lost_for = u64::MAX;
                tx.damaged = true;
                self.stats.inc("fault.partition_muted_telegrams");
                self.last_fault_us = self.now / self.cfg.baud.max(1);
            }
            for n in 0..64usize {
                if self.deaf_until[n] > start && n != sender {
                    tx.lost_for |= 1u64 << n;
                    self.stats.inc("fault.partition_unheard_telegrams");
                    self.last_fault_us = self.now / self.cfg.baud.max(1);
                }
            }
        }
        self.push(end, 0, Ev::TxEnd(idx));
        // abstract trace
        {
            let bus = self.bus.borrow();
            let tx = &bus.txs[idx];
            self.trace.u64(tx.start);
            self.trace.u64(tx.sender as u64);
            self.trace.bytes(&tx.bytes);
            self.trace.bytes(&tx.seen);
            self.fp.u8(tx.sender as u8);
            match &tx.frame {
                Some(f) => {
                    self.fp.u8(f.class());
                    self.fp.u8(f.da().unwrap_or(255));
                }
                None => self.fp.u8(0),
            }
            if self.verbose {
                eprintln!(
                    "{:>12.3}us tx#{idx} node{} {} {}",
                    tx.start as f64 / self.cfg.baud as f64,
                    tx.sender,
                    tx.frame.as_ref().map(|f| f.short()).unwrap_or_else(|| format!("{:02x?}", tx.bytes)),
                    if tx.intact() { "" } else { "(disturbed)" }
                );
            }
        }
        let mut mons = std::mem::take(&mut self.monitors);
        for m in mons.iter_mut() {
            m.on_tx(self, idx);
        }
        self.monitors = mons;
    }

    fn stub_transmit(&mut self, node: NodeId, bytes: Vec<u8>, noise: bool) {
        if bytes.is_empty() {
            return;
        }
        let idx = self.bus.borrow_mut().transmit(self.now, node, bytes, false, noise);
        self.announce_tx(idx);
    }

    fn fire_fault(&mut self, kind: &FaultKind, tx: Option<usize>) {
        self.last_fault_us = self.now_us();
        match kind {
            FaultKind::Drop
            | FaultKind::RxDrop { .. }
            | FaultKind::BitFlip { .. }
            | FaultKind::Subst { .. }
            | FaultKind::Truncate { .. }
            | FaultKind::Dup { .. } => {
                if let Some(idx) = tx {
                    if self.apply_wire_fault(idx, kind) {
                        self.fired_wire.push(FiredWire { tx: idx, kind: kind.clone() });
                    }
                }
            }
            FaultKind::LostWithStraySc => {
                if let Some(idx) = tx {
                    if self.apply_wire_fault(idx, &FaultKind::Drop) {
                        self.fired_wire.push(FiredWire { tx: idx, kind: FaultKind::Drop });
                    }
                    let end = self.bus.borrow().txs[idx].end();
                    let node = self.noise_node;
                    self.push(end + 14 * crate::bus::BIT, 0, Ev::StubSend { node, bytes: vec![0xE5], noise: true });
                    self.stats.inc("fault.lost_with_stray_sc");
                }
            }
            FaultKind::Collide { after_chars, bytes } => {
                if let Some(idx) = tx {
                    let start = self.bus.borrow().txs[idx].start;
                    let t = start + u64::from(*after_chars) * CHAR + CHAR / 2;
                    let node = self.noise_node;
                    self.push(t, 0, Ev::StubSend { node, bytes: bytes.clone(), noise: true });
                    self.stats.inc("fault.collide");
                }
            }
            FaultKind::Noise { bytes } => {
                let node = self.noise_node;
                self.stats.inc("fault.noise");
                self.stub_transmit(node, bytes.clone(), true);
            }
            FaultKind::Storm {
                until_us,
                drop_pm,
                flip_pm,
                rxdrop_pm,
                trunc_pm,
                dup_pm,
                seed,
            } => {
                self.storms.push(Storm {
                    until: self.us(*until_us),
                    drop_pm: *drop_pm,
                    flip_pm: *flip_pm,
                    rxdrop_pm: *rxdrop_pm,
                    trunc_pm: *trunc_pm,
                    dup_pm: *dup_pm,
                    rng: Rng::new(*seed),
                });
                self.last_fault_us = self.last_fault_us.max(*until_us);
                self.stats.inc("fault.storm");
            }
            FaultKind::Crash { station, restart_after_us } => {
                if *station < self.stations.len() && self.stations[*station].alive {
                    self.stats.inc("fault.crash");
                    if restart_after_us.is_some() {
                        self.stats.inc("fault.restart");
                    }
                    self.crash(*station, *restart_after_us);
                }
            }
            FaultKind::Stall { station, us } => {
                if *station < self.stations.len() && self.stations[*station].alive {
                    let until = self.now + self.us(*us);
                    self.stations[*station].stalled_until = until;
                    self.stats.inc("fault.stall");
                    self.last_fault_us = self.last_fault_us.max(self.to_us(until));
                    self.notify_station(*station, &StationEv::Stall(*us));
                }
            }
            FaultKind::GoOffline { station } => {
                if *station < self.stations.len() && self.stations[*station].alive {
                    self.stats.inc("fault.go_offline");
                    self.go_offline(*station);
                }
            }
            FaultKind::GoOnline { station } => {
                if *station < self.stations.len() {
                    let online = self.stations[*station].snap.online;
                    if !online {
                        self.stats.inc("fault.go_online");
                        self.request_online(*station);
                    }
                }
            }
            FaultKind::ClockJump { station, delta_us } => {
                if *station < self.stations.len() {
                    self.stations[*station].clock_jump_us += *delta_us;
                    self.stats.inc(if *delta_us >= 0 { "fault.clock_jump_fwd" } else { "fault.clock_jump_back" });
                    self.notify_station(*station, &StationEv::ClockJump(*delta_us));
                }
            }
            FaultKind::Deaf { station, us } => {
                if *station < self.stations.len() {
                    let node = self.stations[*station].node;
                    self.deaf_until[node % 64] = self.now + self.us(*us);
                    self.stats.inc("fault.partition_deaf_window");
                }
            }
            FaultKind::Mute { station, us } => {
                if *station < self.stations.len() {
                    let node = self.stations[*station].node;
                    self.mute_until[node % 64] = self.now + self.us(*us);
                    self.stats.inc("fault.partition_mute_window");
                }
            }
            FaultKind::SlavePower { slave, on } => {
                if *slave < self.slaves.len() {
                    self.set_slave_power(*slave, *on);
                    self.stats.inc(if *on { "fault.slave_power_on" } else { "fault.slave_power_off" });
                }
            }
            FaultKind::SlaveByz { slave, shape, count } => {
                if *slave < self.slaves.len() {
                    for _ in 0..*count {
                        self.slaves[*slave].byz.push_back(shape.clone());
                    }
                    self.stats.add("fault.slave_byzantine_reply", u64::from(*count));
                    if matches!(shape, ByzShape::Nested) {
                        self.stats.add("fault.slave_reply_nested_in_damaged_telegram", u64::from(*count));
                    }
                }
            }
            FaultKind::SlaveFlag { slave, flag, count } => {
                if *slave < self.slaves.len() {
                    self.slaves[*slave].flag_faults.push((flag.clone(), *count));
                    self.stats.inc("fault.slave_flag");
                }
            }
            FaultKind::SlaveReset { slave } => {
                if *slave < self.slaves.len() {
                    self.slaves[*slave].reset_to_wait_prm();
                    self.stats.inc("fault.slave_watchdog_reset");
                }
            }
            FaultKind::UserDiag { station, app, periph } => {
                if *station < self.stations.len() {
                    let mut done = false;
                    if let Some(p) = self.stations[*station].apps.get_mut(*app) {
                        if let Some(d) = p.dp_mut() {
                            if let Some(h) = d.handles.get(*periph).copied() {
                                d.master.get_mut(h).request_diagnostics();
                                done = true;
                            }
                        }
                    }
                    if done {
                        self.stats.inc("fault.user_request_diagnostics");
                        let act = UserAct::RequestDiag { app: *app, periph: *periph };
                        self.notify_user(*station, &act);
                    }
                }
            }
        }
    }

    fn set_slave_power(&mut self, i: usize, on: bool) {
        self.slaves[i].power(on);
        let mut mons = std::mem::take(&mut self.monitors);
        for m in mons.iter_mut() {
            m.on_slave_power(self, i, on);
        }
        self.monitors = mons;
    }

    fn notify_user(&mut self, st: usize, act: &UserAct) {
        let mut mons = std::mem::take(&mut self.monitors);
        for m in mons.iter_mut() {
            m.on_user(self, st, act);
        }
        self.monitors = mons;
    }

    // --------------------------------------------------------------------------------------
    // user process

    fn user_process(&mut self, i: usize) {
        let now_us = self.now_us();
        let napps = self.stations[i].apps.len();
        for a in 0..napps {
            // late DpMaster::add()
            while let Some(at) = self.stations[i].apps[a].dp().and_then(|d| d.next_add_at()) {
                if now_us < at {
                    break;
                }
                let Some(k) = self.stations[i].apps[a].dp_mut().and_then(|d| d.add_next()) else { break };
                self.stats.inc("user.add_peripheral_while_running");
                if self.stations[i].outstanding.map(|(oa, _)| oa == a).unwrap_or(false) {
                    self.stats.inc("user.add_peripheral_request_in_flight");
                }
                self.notify_user(i, &UserAct::AddPeripheral { app: a, periph: k });
            }
            let (ucfg, nper) = match self.stations[i].apps[a].dp() {
                Some(d) => (d.cfg.user.clone(), d.handles.len()),
                None => continue,
            };
            if nper == 0 || (ucfg.until_us != 0 && now_us >= ucfg.until_us) {
                continue;
            }
            let total = ucfg.write_pm + ucfg.diag_pm + ucfg.reset_pm + ucfg.reset_inflight_pm;
            if total == 0 {
                continue;
            }
            let r = self.stations[i].user_rng.below(1000) as u32;
            if r >= total {
                continue;
            }
            let k = self.stations[i].user_rng.below(nper as u64) as usize;
            let outstanding = self.stations[i].outstanding;
            let act = {
                let s = &mut self.stations[i];
                let d = s.apps[a].dp_mut().unwrap();
                let h = d.handles[k];
                if r < ucfg.write_pm {
                    let n = d.shadow_q[k].len();
                    if n == 0 {
                        None
                    } else {
                        let cnt = s.user_rng.range(1, (n as u64).min(4));
                        for _ in 0..cnt {
                            let pos = s.user_rng.below(n as u64) as usize;
                            let val = s.user_rng.byte();
                            // (a process image whose length is no longer the configured one is
                            // for C04's image monitor to report, not for the user model to trip over)
                            if let Some(b) = d.master.get_mut(h).pi_q_mut().get_mut(pos) {
                                *b = val;
                                d.shadow_q[k][pos] = val;
                            }
                        }
                        Some(UserAct::WriteQ { app: a, periph: k })
                    }
                } else if r < ucfg.write_pm + ucfg.diag_pm {
                    d.master.get_mut(h).request_diagnostics();
                    Some(UserAct::RequestDiag { app: a, periph: k })
                } else {
                    let inflight_allowed = r >= ucfg.write_pm + ucfg.diag_pm + ucfg.reset_pm;
                    let cur = d.addrs[k];
                    let busy = outstanding.map(|(oa, oaddr)| oa == a && oaddr == cur).unwrap_or(false);
                    // a peripheral with a twin at another address moves there (and back)
                    let addr = match d.cfg.peripherals[k].alt_addr {
                        Some(alt) if !busy && s.user_rng.chance(1, 2) => {
                            if cur == alt {
                                d.cfg.peripherals[k].addr
                            } else {
                                alt
                            }
                        }
                        _ => cur,
                    };
                    if busy && !inflight_allowed {
                        None
                    } else {
                        d.master.get_mut(h).reset_address(addr);
                        d.addrs[k] = addr;
                        Some(UserAct::ResetAddress {
                            app: a,
                            periph: k,
                            addr,
                            inflight: busy,
                        })
                    }
                }
            };
            if let Some(act) = act {
                match &act {
                    UserAct::WriteQ { .. } => self.stats.inc("user.write_pi_q"),
                    UserAct::RequestDiag { .. } => self.stats.inc("user.request_diagnostics"),
                    UserAct::ResetAddress { inflight, addr, periph, app } => {
                        self.stats.inc(if *inflight { "user.reset_address_inflight" } else { "user.reset_address" });
                        let moved = self.stations[i].apps[*app].dp().map(|d| d.cfg.peripherals[*periph].alt_addr.is_some() && true).unwrap_or(false);
                        if moved {
                            let _ = addr;
                            self.stats.inc("user.reset_address_of_a_peripheral_with_a_twin");
                        }
                    }
                    _ => {}
                }
                self.notify_user(i, &act);
            }
        }
    }

    // --------------------------------------------------------------------------------------
    // polling

    fn poll_station(&mut self, i: usize, dup: bool) {
        let t = self.now;
        let local = self.local_us(i, t);
        let pre = self.stations[i].snap.clone();
        let single = self.stations[i].cfg.single_poll_api;
        {
            let s = &mut self.stations[i];
            s.log.borrow_mut().clear();
            s.phy.as_mut().unwrap().begin_poll(t, local);
            s.polls += 1;
        }
        self.total_polls += 1;
        let now = Instant::from_micros(local);
        let res = {
            let s = &mut self.stations[i];
            let fdl = s.fdl.as_mut().unwrap();
            let phy = s.phy.as_mut().unwrap();
            let apps = &mut s.apps;
            std::panic::catch_unwind(std::panic::AssertUnwindSafe(|| match apps.as_mut_slice() {
                [] => fdl.poll(now, phy, &mut ()),
                [a] => {
                    if single {
                        fdl.poll(now, phy, a)
                    } else {
                        fdl.poll_multi(now, phy, &mut [a as &mut dyn FdlApplication])
                    }
                }
                [a, b] => fdl.poll_multi(now, phy, &mut [a as &mut dyn FdlApplication, b]),
                [a, b, c] => fdl.poll_multi(now, phy, &mut [a as &mut dyn FdlApplication, b, c]),
                [a, b, c, d] => fdl.poll_multi(now, phy, &mut [a as &mut dyn FdlApplication, b, c, d]),
                _ => panic!("harness: more than four applications"),
            }))
        };
        if res.is_err() {
            let info = LAST_PANIC.with(|p| p.borrow_mut().take()).unwrap_or(PanicInfo {
                msg: "?".into(),
                loc: "?".into(),
            });
            self.panic = Some((i, info));
            self.stop = true;
            return;
        }
        // collect what happened
        let post = Snap::of(self.stations[i].fdl.as_ref().unwrap());
        let (rx, txs, contract, new_rx_bytes) = {
            let phy = self.stations[i].phy.as_mut().unwrap();
            (
                std::mem::take(&mut phy.rx_events),
                std::mem::take(&mut phy.tx_started),
                std::mem::take(&mut phy.contract),
                std::mem::take(&mut phy.new_rx_bytes),
            )
        };
        let calls: Vec<AppCall> = self.stations[i].log.borrow().clone();
        // outstanding request bookkeeping (from the call log only)
        for c in &calls {
            match c {
                AppCall::Tx { app, sent: Some((_, Some(addr))), .. } => self.stations[i].outstanding = Some((*app, *addr)),
                AppCall::Tx { .. } => {}
                AppCall::Reply { .. } | AppCall::Timeout { .. } => self.stations[i].outstanding = None,
            }
        }
        if !post.in_ring {
            self.stations[i].outstanding = None;
        }
        // events
        let mut dp_events = Vec::new();
        let mut scan_events = Vec::new();
        let polls = self.stations[i].polls;
        let mut events_taken = false;
        for (a, p) in self.stations[i].apps.iter_mut().enumerate() {
            match &mut p.kind {
                AppKind::Dp(d) => {
                    let every = u64::from(d.cfg.user.take_every.max(1));
                    if polls % every == 0 {
                        events_taken = true;
                        let ev = d.master.take_last_events();
                        if ev.cycle_completed || ev.peripheral.is_some() {
                            let periph = ev.peripheral.map(|(h, e)| {
                                let idx = d.handles.iter().position(|x| *x == h).unwrap_or(usize::MAX);
                                (idx, h.address(), e)
                            });
                            dp_events.push(DpEv {
                                app: a,
                                cycle_completed: ev.cycle_completed,
                                periph,
                            });
                        }
                    }
                }
                AppKind::Live(l) => {
                    use profirust::fdl::live_list::StationEvent;
                    match l.take_last_event() {
                        Some(StationEvent::Discovered(d)) => scan_events.push(ScanEv::LiveDiscovered {
                            app: a,
                            addr: d.address,
                            state: d.state as u8,
                        }),
                        Some(StationEvent::Lost(addr)) => scan_events.push(ScanEv::LiveLost { app: a, addr }),
                        None => {}
                    }
                }
                AppKind::Scan(s) => {
                    use profirust::dp::scan::DpScanEvent;
                    match s.take_last_event() {
                        Some(DpScanEvent::PeripheralFound(d)) => scan_events.push(ScanEv::DpFound {
                            app: a,
                            addr: d.address,
                            ident: d.ident,
                            master: d.master_address,
                        }),
                        Some(DpScanEvent::PeripheralRequery(d)) => scan_events.push(ScanEv::DpRequery {
                            app: a,
                            addr: d.address,
                            ident: d.ident,
                            master: d.master_address,
                        }),
                        Some(DpScanEvent::PeripheralLost(addr)) => scan_events.push(ScanEv::DpLost { app: a, addr }),
                        None => {}
                    }
                }
                _ => {}
            }
        }
        self.stations[i].snap = post.clone();
        if self.verbose {
            for r in &rx {
                eprintln!("{:>12.3}us   st{} rx {:?}", t as f64 / self.cfg.baud as f64, i, r.verdict);
            }
            for c in &calls {
                eprintln!("{:>12.3}us   st{} app {:?}", t as f64 / self.cfg.baud as f64, i, c);
            }
            for e in &dp_events {
                eprintln!("{:>12.3}us   st{} dp-event {:?}", t as f64 / self.cfg.baud as f64, i, e);
            }
            if pre.las != post.las || pre.ns != post.ns || pre.ps != post.ps || pre.in_ring != post.in_ring {
                let set = |m: u128| (0..128).filter(|a| m >> a & 1 == 1).map(|a| a.to_string()).collect::<Vec<_>>().join(",");
                eprintln!(
                    "{:>12.3}us   st{} ring-view LAS {{{}}} -> {{{}}} NS {}->{} PS {}->{} in_ring {}->{}",
                    t as f64 / self.cfg.baud as f64,
                    i,
                    set(pre.las),
                    set(post.las),
                    pre.ns,
                    post.ns,
                    pre.ps,
                    post.ps,
                    pre.in_ring,
                    post.in_ring
                );
            }
        }
        let info = PollInfo {
            st: i,
            t,
            local_us: local,
            pre: &pre,
            post: &post,
            rx: &rx,
            txs: &txs,
            calls: &calls,
            contract: &contract,
            dp_events: &dp_events,
            scan_events: &scan_events,
            events_taken,
            dup,
            new_rx_bytes,
        };
        // Order inside one poll: what was received and the callbacks it caused come first, the
        // transmission the poll ended with comes last.
        let mut mons = std::mem::take(&mut self.monitors);
        for m in mons.iter_mut() {
            m.on_poll(self, &info);
        }
        self.monitors = mons;
        if pre.online && !post.online && !self.stations[i].self_offline_seen {
            self.stations[i].self_offline_seen = true;
            self.stats.inc("probe.self_offline_address_collision");
            self.notify_station(i, &StationEv::SelfOffline);
        }
        self.cur_tx_app = calls.iter().rev().find_map(|c| match c {
            AppCall::Tx { app, sent: Some(_), .. } => Some(*app),
            _ => None,
        });
        for idx in &txs {
            self.announce_tx(*idx);
        }
        self.cur_tx_app = None;
    }

    // --------------------------------------------------------------------------------------
    // main loop

    pub fn run(&mut self) {
        let end = self.us(self.cfg.end_us);
        while let Some(std::cmp::Reverse(item)) = self.q.pop() {
            if item.t > end || self.stop {
                break;
            }
            debug_assert!(item.t >= self.now);
            self.now = item.t;
            match item.ev {
                Ev::Poll(i, gen) => {
                    if !self.stations[i].alive || self.stations[i].generation != gen {
                        continue;
                    }
                    if self.now < self.stations[i].stalled_until {
                        let tt = self.stations[i].stalled_until;
                        let tie = self.tie_rng.next_u64() | 8;
                        self.push(tt, tie, Ev::Poll(i, gen));
                        continue;
                    }
                    if self.total_polls >= self.cfg.max_polls {
                        break;
                    }
                    self.user_process(i);
                    self.poll_station(i, false);
                    if self.stop {
                        break;
                    }
                    // a fault triggered by this poll's transmission may have crashed the station
                    if !self.stations[i].alive || self.stations[i].generation != gen || self.stations[i].phy.is_none() {
                        continue;
                    }
                    let dup_pm = self.stations[i].cfg.dup_poll_pm;
                    if dup_pm > 0 && self.stations[i].poll_rng.chance(u64::from(dup_pm), 1000) {
                        self.stats.inc("buggify.duplicate_poll");
                        self.poll_station(i, true);
                        if self.stop {
                            break;
                        }
                    }
                    if !self.stations[i].alive || self.stations[i].generation != gen {
                        continue;
                    }
                    let s = &mut self.stations[i];
                    let d = s.poll_rng.range(s.cfg.p_min_us.max(1), s.cfg.p_max_us.max(1));
                    let tt = self.now + d * self.cfg.baud;
                    let tie = self.tie_rng.next_u64() | 8;
                    self.push(tt, tie, Ev::Poll(i, gen));
                }
                Ev::TxEnd(idx) => {
                    self.on_tx_end(idx);
                }
                Ev::StubSend { node, bytes, noise } => {
                    // a powered-off slave does not send what it had scheduled
                    if node >= self.stations.len() && node < self.stations.len() + self.slaves.len() {
                        let si = node - self.stations.len();
                        if !self.slaves[si].powered {
                            continue;
                        }
                    }
                    self.stub_transmit(node, bytes, noise);
                }
                Ev::Plan(i, k) => {
                    let op = self.stations[i].cfg.plan[k].1.clone();
                    match op {
                        PlanOp::Online => {
                            if !self.stations[i].snap.online {
                                self.request_online(i)
                            }
                        }
                        PlanOp::Offline => self.go_offline(i),
                    }
                }
                Ev::SlavePower(i, on) => self.set_slave_power(i, on),
                Ev::FaultAt(k) => {
                    if !self.faults[k].fired || self.faults[k].armed {
                        self.faults[k].fired = true;
                        self.faults[k].armed = false;
                        let kind = self.faults[k].fault.kind.clone();
                        self.fire_fault(&kind, None);
                    }
                }
                Ev::Restart(i) => {
                    if !self.stations[i].alive {
                        self.create_station(i);
                        self.notify_station(i, &StationEv::Restart);
                        self.request_online(i);
                    }
                }
                Ev::BringOnline(i) => {
                    if !self.stations[i].snap.online {
                        self.request_online(i);
                    }
                }
                Ev::Operate(i, a) => {
                    if let Some(p) = self.stations[i].apps.get_mut(a) {
                        if let Some(d) = p.dp_mut() {
                            d.master.enter_operate();
                            d.operate = true;
                            let act = UserAct::EnterOperate { app: a };
                            self.notify_user(i, &act);
                        }
                    }
                }
                Ev::FaultsStop => {
                    for f in self.faults.iter_mut() {
                        f.fired = true;
                        f.armed = false;
                    }
                    for s in self.slaves.iter_mut() {
                        s.byz.clear();
                        s.flag_faults.clear();
                    }
                    self.storms.clear();
                }
                Ev::AdvWake(token) => {
                    if let Some(mut adv) = self.adv.take() {
                        let acts = adv.wake(self, token);
                        self.adv = Some(adv);
                        self.run_adv_actions(acts);
                    }
                }
            }
            if self.monitors.iter().any(|m| !m.observer()) && self.monitors.iter().all(|m| m.observer() || m.done(self)) {
                break;
            }
            if self.has_violation() {
                break;
            }
        }
        let mut mons = std::mem::take(&mut self.monitors);
        for m in mons.iter_mut() {
            m.finish(self);
        }
        self.monitors = mons;
    }

    fn run_adv_actions(&mut self, acts: Vec<crate::adversary::AdvAction>) {
        use crate::adversary::AdvAction;
        for a in acts {
            match a {
                AdvAction::SendAt { t, bytes } => {
                    let node = self.adv_node;
                    let tt = t.max(self.now);
                    self.push(tt, 0, Ev::StubSend { node, bytes, noise: false });
                }
                AdvAction::WakeAt { t, token } => {
                    let tt = t.max(self.now);
                    self.push(tt, 2, Ev::AdvWake(token));
                }
            }
        }
    }

    fn on_tx_end(&mut self, idx: usize) {
        let (sender, lost_for, frame, end) = {
            let bus = self.bus.borrow();
            let tx = &bus.txs[idx];
            (tx.sender, tx.lost_for, tx.seen_frame(), tx.end())
        };
        if let Some(frame) = &frame {
            let base = self.stations.len();
            for si in 0..self.slaves.len() {
                let node = base + si;
                if node == sender || (lost_for >> node) & 1 == 1 {
                    continue;
                }
                if let Some(r) = self.slaves[si].handle(frame, end) {
                    let t = end + r.delay_bits * BIT;
                    self.push(t, 0, Ev::StubSend { node, bytes: r.bytes, noise: false });
                }
            }
        }
        if let Some(mut adv) = self.adv.take() {
            let hear = sender != self.adv_node && (lost_for >> self.adv_node) & 1 == 0;
            let acts = adv.on_tx_end(self, idx, if hear { frame.as_ref() } else { None });
            self.adv = Some(adv);
            self.run_adv_actions(acts);
        }
        let mut mons = std::mem::take(&mut self.monitors);
        for m in mons.iter_mut() {
            m.on_tx_end(self, idx);
        }
        self.monitors = mons;
    }
}

/// Helper shared by monitors: decode the FC of a data frame.
pub fn req_of(f: &Frame) -> Option<(bool, bool, u8)> {
    match f.fc() {
        Some(Fc::Request { fcv, fcb, req }) => Some((fcv, fcb, req)),
        _ => None,
    }
}

pub fn is_status_reply(f: &Frame) -> bool {
    matches!(f, Frame::Data { fc, dsap: None, ssap: None, pdu, .. } if fc & 0x40 == 0 && pdu.is_empty())
}

pub fn _unused(_: &wire::Dec) {}
