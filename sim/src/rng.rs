//! Deterministic PRNG streams.  One run seed is expanded into independent streams
//! (`derive(seed, label, index)`) so that removing a fault or a station during shrinking does not
//! re-randomise the others.  Nothing here reads a clock or any global state.

#[derive(Clone, Debug)]
pub struct Rng {
    s: [u64; 4],
}

fn splitmix(state: &mut u64) -> u64 {
    *state = state.wrapping_add(0x9E37_79B9_7F4A_7C15);
    let mut z = *state;
    z = (z ^ (z >> 30)).wrapping_mul(0xBF58_476D_1CE4_E5B9);
    z = (z ^ (z >> 27)).wrapping_mul(0x94D0_49BB_1331_11EB);
    z ^ (z >> 31)
}

/// Mix a seed with a label and an index into a new seed (FNV-1a over the label, then splitmix).
pub fn derive(seed: u64, label: &str, index: u64) -> u64 {
    let mut h: u64 = 0xcbf2_9ce4_8422_2325;
    for b in label.as_bytes() {
        h ^= u64::from(*b);
        h = h.wrapping_mul(0x0000_0100_0000_01B3);
    }
    let mut st = seed ^ h.rotate_left(17) ^ index.wrapping_mul(0xD6E8_FEB8_6659_FD93);
    let a = splitmix(&mut st);
    let b = splitmix(&mut st);
    a ^ b.rotate_left(32)
}

impl Rng {
    pub fn new(seed: u64) -> Self {
        let mut st = seed;
        let s = [
            splitmix(&mut st),
            splitmix(&mut st),
            splitmix(&mut st),
            splitmix(&mut st),
        ];
        Rng { s }
    }

    pub fn derived(seed: u64, label: &str, index: u64) -> Self {
        Rng::new(derive(seed, label, index))
    }

    /// xoshiro256**
    pub fn next_u64(&mut self) -> u64 {
        let result = self.s[1].wrapping_mul(5).rotate_left(7).wrapping_mul(9);
        let t = self.s[1] << 17;
        self.s[2] ^= self.s[0];
        self.s[3] ^= self.s[1];
        self.s[1] ^= self.s[2];
        self.s[0] ^= self.s[3];
        self.s[2] ^= t;
        self.s[3] = self.s[3].rotate_left(45);
        result
    }

    /// Uniform in `0..n` (n > 0).
    pub fn below(&mut self, n: u64) -> u64 {
        debug_assert!(n > 0);
        // multiply-shift; bias is irrelevant here
        ((u128::from(self.next_u64()) * u128::from(n)) >> 64) as u64
    }

    /// Uniform in `lo..=hi`.
    pub fn range(&mut self, lo: u64, hi: u64) -> u64 {
        if hi <= lo {
            return lo;
        }
        lo + self.below(hi - lo + 1)
    }

    pub fn range_i(&mut self, lo: i64, hi: i64) -> i64 {
        if hi <= lo {
            return lo;
        }
        lo + self.below((hi - lo + 1) as u64) as i64
    }

    /// True with probability num/den.
    pub fn chance(&mut self, num: u64, den: u64) -> bool {
        self.below(den) < num
    }

    pub fn pick<'a, T>(&mut self, items: &'a [T]) -> &'a T {
        &items[self.below(items.len() as u64) as usize]
    }

    pub fn byte(&mut self) -> u8 {
        self.next_u64() as u8
    }

    pub fn bytes(&mut self, n: usize) -> Vec<u8> {
        (0..n).map(|_| self.byte()).collect()
    }

    /// Pick an index according to integer weights.
    pub fn weighted(&mut self, weights: &[u64]) -> usize {
        let total: u64 = weights.iter().sum();
        let mut x = self.below(total.max(1));
        for (i, w) in weights.iter().enumerate() {
            if x < *w {
                return i;
            }
            x -= *w;
        }
        weights.len() - 1
    }

    pub fn shuffle<T>(&mut self, v: &mut [T]) {
        for i in (1..v.len()).rev() {
            let j = self.below(i as u64 + 1) as usize;
            v.swap(i, j);
        }
    }
}

/// Order-sensitive 64-bit hash accumulator used for trace hashes and fingerprints
/// (never `std::collections::hash_map::RandomState`, which is randomised per process).
#[derive(Clone, Copy, Debug)]
pub struct Fnv(pub u64);

impl Default for Fnv {
    fn default() -> Self {
        Fnv(0xcbf2_9ce4_8422_2325)
    }
}

impl Fnv {
    pub fn new() -> Self {
        Self::default()
    }
    pub fn u8(&mut self, b: u8) {
        self.0 ^= u64::from(b);
        self.0 = self.0.wrapping_mul(0x0000_0100_0000_01B3);
    }
    pub fn u64(&mut self, v: u64) {
        for b in v.to_le_bytes() {
            self.u8(b);
        }
    }
    pub fn bytes(&mut self, bs: &[u8]) {
        self.u64(bs.len() as u64);
        for b in bs {
            self.u8(*b);
        }
    }
    pub fn str(&mut self, s: &str) {
        self.bytes(s.as_bytes());
    }
    pub fn finish(&self) -> u64 {
        let mut st = self.0;
        splitmix(&mut st)
    }
}
