//! Per-property wiring: which monitors decide a property in a given scenario, how a run is
//! executed, and what makes a run non-trivial for the evidence.

use crate::monitors::access::AccessMonitor;
use crate::monitors::ring::RingMonitor;
use crate::rng::Fnv;
use crate::scenario::*;
use crate::world::{Monitor, Stats, Violation, World};
use serde::{Deserialize, Serialize};
use std::collections::BTreeMap;

pub const CLAIMED: [&str; 2] = ["C01", "C02"];

#[derive(Serialize, Deserialize, Clone, Debug, Default)]
pub struct RunResult {
    pub k: u64,
    pub seed: u64,
    pub violations: Vec<Violation>,
    pub counters: BTreeMap<String, u64>,
    pub maxf: BTreeMap<String, f64>,
    pub trace_hash: String,
    pub fingerprint: String,
    pub nontrivial: bool,
    pub sim_us: u64,
    pub polls: u64,
    pub txs: u64,
    /// The run was cut short by a panic that is not this property's business (see C05).
    pub aborted: Option<String>,
    pub wall_us: u64,
}

pub fn level_of(check: &str) -> &'static str {
    match check {
        "C01" | "C02" | "C13" | "C15" | "C16" => "exploration",
        _ => "fault_enumeration",
    }
}

/// Properties whose statement itself forbids panics on the paths this check exercises.
fn panic_is_violation(check: &str) -> bool {
    matches!(check, "C04" | "C05" | "C10" | "C14")
}

pub fn build_monitors(sc: &Scenario, w: &World) -> Vec<Box<dyn Monitor>> {
    let mut m: Vec<Box<dyn Monitor>> = Vec::new();
    let o = &sc.oracle;
    match sc.check.as_str() {
        "C01" => {
            m.push(Box::new(AccessMonitor::new("C01", w.stations.len())));
            // only to end the run once the ring has been observed long enough
            m.push(Box::new(RingMonitor::new("C01", w, o.quiet_from_us, o.bound_us, o.stable_us, false).silent()));
        }
        "C02" => {
            m.push(Box::new(RingMonitor::new("C02", w, o.quiet_from_us, o.bound_us, o.stable_us, false)));
        }
        other => panic!("harness: no monitors for check {other}"),
    }
    m
}

pub fn nontrivial(check: &str, s: &Stats) -> bool {
    match check {
        "C01" => s.get("access.tokens") >= 20 && s.get("access.distinct_token_senders") >= 2,
        "C02" => s.get("ring.converged") >= 1 && s.get("ring.tokens_in_stable") >= 10,
        _ => true,
    }
}

pub fn run_scenario(sc: &Scenario, verbose: bool) -> RunResult {
    run_scenario_full(sc, verbose).0
}

pub fn run_scenario_full(sc: &Scenario, verbose: bool) -> (RunResult, Vec<(usize, FaultKind)>) {
    let t0 = std::time::Instant::now();
    crate::logger::configure(sc.world.log_all);
    let mut w = World::new(sc);
    w.verbose = verbose;
    w.monitors = build_monitors(sc, &w);
    w.run();
    let mut stats = std::mem::take(&mut w.stats);
    let mons = std::mem::take(&mut w.monitors);
    for m in mons.iter() {
        m.report(&w, &mut stats);
    }
    // station-side statistics
    for s in &w.stations {
        if let Some(p) = &s.phy {
            stats.add("rx.consumed", p.stat_consumed);
            stats.add("rx.discards", p.stat_discards);
            stats.add("probe.more_than_one_telegram_in_buffer", p.stat_multi_in_buffer);
        }
    }
    for sl in &w.slaves {
        stats.add("slave.requests", sl.n_requests);
        stats.add("slave.retransmissions_detected", sl.n_retrans_detected);
        stats.add("slave.data_exchanges", sl.n_dx);
    }
    if let Some(a) = &w.adv {
        stats.add("adv.sent", a.sent);
        stats.add("adv.coop", a.coop_actions);
        stats.add("adv.deviations", a.deviations);
    }
    stats.add("bus.collisions", w.bus.borrow().collisions.len() as u64);
    let mut violations = w.violations.borrow().clone();
    let mut aborted = None;
    if let Some((st, p)) = &w.panic {
        let a = w.stations[*st].cfg.addr;
        let short: String = p.msg.chars().take(80).collect();
        if panic_is_violation(&sc.check) {
            violations.push(Violation {
                property: sc.check.clone(),
                oracle: "total.panic".into(),
                sig: format!("panic@{}", p.loc),
                t_us: w.now_us(),
                station: Some(a),
                detail: format!("poll() of #{a} panicked at {}: {}", p.loc, short),
            });
        } else {
            aborted = Some(format!("panic at {}: {}", p.loc, short));
        }
    }
    let mut fp = Fnv::new();
    fp.u64(w.fp.finish());
    fp.u64(sc.world.stations.len() as u64);
    fp.u64(sc.world.slaves.len() as u64);
    let nontrivial = aborted.is_none() && nontrivial(&sc.check, &stats);
    let fired: Vec<(usize, FaultKind)> = w.fired_wire.iter().map(|f| (f.tx, f.kind.clone())).collect();
    let rr = RunResult {
        k: 0,
        seed: sc.seed,
        violations,
        counters: stats.c,
        maxf: stats.maxf,
        trace_hash: format!("{:016x}", w.trace.finish()),
        fingerprint: format!("{:016x}", fp.finish()),
        nontrivial,
        sim_us: w.now_us(),
        polls: w.total_polls,
        txs: w.bus.borrow().txs.len() as u64,
        aborted,
        wall_us: t0.elapsed().as_micros() as u64,
    };
    (rr, fired)
}

// ------------------------------------------------------------------------------------------
// per-check metadata used by the driver and the evidence writer

use crate::gen::Tier;

pub fn default_runs(check: &str, tier: Tier) -> u64 {
    let (q, t) = match check {
        "C01" => (1500, 40_000),
        "C02" => (1200, 20_000),
        _ => (1000, 20_000),
    };
    match tier {
        Tier::Quick => q,
        Tier::Thorough => t,
    }
}

pub fn hang_is_violation(check: &str) -> bool {
    matches!(check, "C05" | "C14" | "C10")
}

pub fn probe_names(check: &str) -> Vec<&'static str> {
    match check {
        "C01" | "C02" => vec!["probe.more_than_one_telegram_in_buffer", "probe.self_offline_address_collision"],
        _ => vec![],
    }
}

pub fn rule_of(check: &str) -> String {
    let common = "One case = one simulated run = generate(check, tier, base seed, run index): a scenario (configuration, poll schedules, fault plan) drawn from the run seed and executed in the discrete-event world against the real profirust code. Distinct = distinct abstract run fingerprint (hash of the sequence of (sender node, telegram class, destination) of every transmission plus the shape of the world; no times, no payloads). ";
    let nt = match check {
        "C01" => "Non-trivial = at least 20 token telegrams were sent by at least 2 different real stations (a ring existed and circulated).",
        "C02" => "Non-trivial = agreement was reached and at least 10 token passes were checked for order during the stability window.",
        _ => "Non-trivial = the run was not aborted.",
    };
    format!("{common}{nt}")
}

pub fn components(check: &str) -> serde_json::Value {
    let _ = check;
    serde_json::json!({
        "real_code": ["profirust::fdl::FdlActiveStation (incl. TokenRing, GAP logic)", "profirust::fdl telegram encode/decode (through every transmit and receive)", "provided methods of profirust::phy::ProfibusPhy (transmit_telegram, receive_telegram, receive_all_telegrams, poll_pending_received_bytes)", "profirust::fdl::live_list::LiveList (when attached)", "profirust::fdl::ParametersBuilder"],
        "stubs": ["bus (exact-time, byte-accurate)", "harness PHY back end implementing ProfibusPhy (serial/linux/rp2040 PHYs are not run)", "scripted traffic applications", "passive FDL responders", "clocks / poll scheduler"]
    })
}

pub fn assumptions(check: &str) -> Vec<String> {
    let mut v = vec![
        "Reaction-time assumption (DESIGN 5.1): every station is polled at least every P with 3*P + 44 bit + 2 us <= Tslot and P <= Tslot/4 (plus the delay of enabled buggify sites).".to_string(),
        "All stations share baud rate, slot time and HSA; addresses are distinct and below HSA.".to_string(),
        "Sampling, not enumeration: a clean batch is evidence, not proof.".to_string(),
    ];
    match check {
        "C01" => v.push("Cold start together = first polls within one poll period; the unsynchronised claim race and stale PHY buffers are excluded (DESIGN 5.2, 5.3). Joining stations start listening at a telegram boundary.".to_string()),
        "C02" => v.push("Convergence bound B_conv and stability window of DESIGN 5.4.".to_string()),
        _ => {}
    }
    v
}
