//! Per-property wiring: which monitors decide a property in a given scenario, how a run is
//! executed, and what makes a run non-trivial for the evidence.

use crate::monitors::access::AccessMonitor;
use crate::monitors::apps::{AppCallMonitor, HoldMonitor};
use crate::monitors::gap::GapMonitor;
use crate::monitors::handover::HandoverMonitor;
use crate::monitors::dp::{dp_apps, BringupMonitor, CycleMonitor, FcbMonitor, ImageMonitor, LivenessMonitor};
use crate::monitors::ring::RingMonitor;
use crate::monitors::scan::ScanMonitor;
use crate::monitors::total::TotalMonitor;
use crate::rng::Fnv;
use crate::scenario::*;
use crate::world::{Monitor, Stats, Violation, World};
use serde::{Deserialize, Serialize};
use std::collections::BTreeMap;

pub const CLAIMED: [&str; 10] = ["C01", "C02", "C03", "C04", "C06", "C07", "C08", "C13", "C14", "C15"];

#[derive(Serialize, Deserialize, Clone, Debug, Default)]
pub struct RunResult {
    pub k: u64,
    pub seed: u64,
    pub violations: Vec<Violation>,
    pub counters: BTreeMap<String, u64>,
    pub maxf: BTreeMap<String, f64>,
    pub trace_hash: String,
    pub fingerprint: String,
    pub nontrivial: bool,
    pub sim_us: u64,
    pub polls: u64,
    pub txs: u64,
    /// The run was cut short by a panic that is not this property's business (see C05).
    pub aborted: Option<String>,
    pub wall_us: u64,
}

pub fn level_of(check: &str) -> &'static str {
    match check {
        "C01" | "C02" | "C13" | "C15" | "C16" => "exploration",
        _ => "fault_enumeration",
    }
}

/// Properties whose statement itself forbids panics on the paths this check exercises.
fn panic_is_violation(check: &str) -> bool {
    // ... and the liveness properties: a station that has panicked never joins a ring, never brings
    // a peripheral back and never completes a scan.
    // ("no application or station is starved", "each gets its turn": C13, C15)
    matches!(check, "C04" | "C05" | "C10" | "C14" | "C02" | "C06" | "C07" | "C18" | "C13" | "C15")
}

pub fn build_monitors(sc: &Scenario, w: &World) -> Vec<Box<dyn Monitor>> {
    let mut m: Vec<Box<dyn Monitor>> = Vec::new();
    let o = &sc.oracle;
    match sc.check.as_str() {
        "C01" => {
            m.push(Box::new(AccessMonitor::new("C01", w.stations.len())));
            // only to end the run once the ring has been observed long enough
            m.push(Box::new(RingMonitor::new("C01", w, o.quiet_from_us, o.bound_us, o.stable_us, false).silent()));
        }
        "C02" => {
            m.push(Box::new(RingMonitor::new("C02", w, o.quiet_from_us, o.bound_us, o.stable_us, false)));
        }
        "C18" => {
            m.push(Box::new(ScanMonitor::new("C18", w, o.quiet_from_us)));
        }
        "C05" => {
            m.push(Box::new(TotalMonitor::new("C05")));
        }
        "C11" => {
            m.push(Box::new(HandoverMonitor::new("C11", w)));
        }
        "C12" => {
            m.push(Box::new(GapMonitor::new("C12", w)));
        }
        "C06" => {
            m.push(Box::new(RingMonitor::new("C06", w, o.quiet_from_us, o.bound_us, o.stable_us, true)));
        }
        "C13" => {
            m.push(Box::new(HoldMonitor::new("C13", w, o.quiet_from_us)));
            m.push(Box::new(RingMonitor::new("C13", w, o.quiet_from_us, o.bound_us, o.stable_us, false).silent()));
        }
        "C15" => {
            m.push(Box::new(AppCallMonitor::new("C15", w)));
            m.push(Box::new(HoldMonitor::new("C15", w, o.quiet_from_us).only_hold_time()));
            m.push(Box::new(RingMonitor::new("C15", w, o.quiet_from_us, o.bound_us, o.stable_us, false).silent()));
        }
        "C03" => {
            for d in dp_apps(w) {
                m.push(Box::new(BringupMonitor::new("C03", w, d)));
            }
        }
        "C04" => {
            for d in dp_apps(w) {
                m.push(Box::new(ImageMonitor::new("C04", w, d)));
            }
        }
        "C07" => {
            for d in dp_apps(w) {
                m.push(Box::new(LivenessMonitor::new("C07", w, d, o.quiet_from_us, o.bound_us, o.bound_cycles)));
            }
        }
        "C08" => {
            for d in dp_apps(w) {
                m.push(Box::new(FcbMonitor::new("C08", w, d)));
            }
        }
        "C14" => {
            for d in dp_apps(w) {
                m.push(Box::new(CycleMonitor::new("C14", w, d)));
            }
        }
        other => panic!("harness: no monitors for check {other}"),
    }
    m
}

pub fn nontrivial(check: &str, s: &Stats) -> bool {
    match check {
        "C01" => s.get("access.tokens") >= 20 && s.get("access.distinct_token_senders") >= 2,
        "C02" => s.get("ring.converged") >= 1 && s.get("ring.tokens_in_stable") >= 10,
        "C18" => s.get("scan.verdicts") >= 1 && s.get("scan.found_events") >= 1,
        "C10" => s.get("decoder.buffers_evaluated") >= 3,
        "C16" => s.get("stream.receive_calls") >= 3,
        "C05" => s.get("total.polls_returned") >= 200 && (faults_fired(s) >= 1 || s.get("adv.sent") >= 5),
        "C06" => s.get("ring.converged") >= 1 && faults_fired(s) >= 1,
        "C11" => s.get("handover.accepted_from_predecessor") + s.get("probe.token_accepted_from_new_predecessor_on_second_offer") >= 2 && s.get("handover.claims") >= 1,
        "C12" => s.get("gap.polls") >= 10 && (s.get("probe.status_reply_not_ready") + s.get("probe.status_reply_ready") + s.get("probe.status_reply_in_ring") >= 1 || s.get("gap.sweeps_with_wait_checked") >= 1),
        "C13" => s.get("hold.requests_checked_against_hold_time") >= 5 && s.get("hold.rotations_checked") >= 5,
        "C15" => s.get("apps.requests_sent") >= 10 && s.get("apps.round_robin_steps_checked") >= 10,
        "C03" => s.get("dp.bringups_completed") >= 1 && s.get("dp.requests.data_exchange") >= 5 && faults_fired(s) >= 1,
        "C04" => s.get("image.input_updates") >= 5 && s.get("image.dx_requests_checked") >= 5,
        "C07" => s.get("liveness.verdicts") >= 1 && faults_fired(s) >= 1,
        "C08" => s.get("fcb.toggles_checked") >= 10 && (s.get("fcb.retransmissions") >= 1 || faults_fired(s) >= 1),
        "C14" => s.get("cycle.cycles_completed") >= 5,
        _ => true,
    }
}

pub fn faults_fired(s: &Stats) -> u64 {
    s.c.iter().filter(|(k, _)| k.starts_with("fault.")).map(|(_, v)| *v).sum()
}

pub fn run_scenario(sc: &Scenario, verbose: bool) -> RunResult {
    run_scenario_full(sc, verbose).0
}

pub fn run_scenario_full(sc: &Scenario, verbose: bool) -> (RunResult, Vec<(usize, FaultKind)>) {
    if let Some(rx) = &sc.rx {
        return (crate::rx::run_rx(sc, rx), Vec::new());
    }
    let t0 = std::time::Instant::now();
    crate::logger::configure(sc.world.log_all);
    let mut w = World::new(sc);
    w.verbose = verbose;
    w.monitors = build_monitors(sc, &w);
    w.run();
    let mut stats = std::mem::take(&mut w.stats);
    let mons = std::mem::take(&mut w.monitors);
    for m in mons.iter() {
        m.report(&w, &mut stats);
    }
    // station-side statistics
    for s in &w.stations {
        if let Some(p) = &s.phy {
            stats.add("rx.consumed", p.stat_consumed);
            stats.add("rx.discards", p.stat_discards);
            stats.add("rx.flushes_on_slot_expiry", p.stat_flushes);
            stats.add("probe.more_than_one_telegram_in_buffer", p.stat_multi_in_buffer);
            stats.add("fault.transmitter_latency", p.stat_lagged_tx);
        }
    }
    for sl in &w.slaves {
        stats.add("slave.requests", sl.n_requests);
        stats.add("slave.retransmissions_detected", sl.n_retrans_detected);
        stats.add("slave.data_exchanges", sl.n_dx);
    }
    if let Some(a) = &w.adv {
        stats.add("adv.sent", a.sent);
        stats.add("adv.coop", a.coop_actions);
        stats.add("adv.deviations", a.deviations);
        stats.add("probe.token_between_others_during_gap_poll_wait", a.interjections);
        stats.add("probe.single_token_offer_after_interjection", a.single_offers);
    }
    stats.add("bus.collisions", w.bus.borrow().collisions.len() as u64);
    let mut violations = w.violations.borrow().clone();
    let mut aborted = None;
    if let Some((st, p)) = &w.panic {
        let a = w.stations[*st].cfg.addr;
        let short: String = p.msg.chars().take(80).collect();
        if panic_is_violation(&sc.check) {
            violations.push(Violation {
                property: sc.check.clone(),
                oracle: "total.panic".into(),
                sig: format!("panic@{}", p.loc),
                t_us: w.now_us(),
                station: Some(a),
                detail: format!("poll() of #{a} panicked at {}: {}", p.loc, short),
            });
        } else {
            aborted = Some(format!("panic at {}: {}", p.loc, short));
        }
    }
    let mut fp = Fnv::new();
    fp.u64(w.fp.finish());
    fp.u64(sc.world.stations.len() as u64);
    fp.u64(sc.world.slaves.len() as u64);
    let nontrivial = aborted.is_none() && nontrivial(&sc.check, &stats);
    let fired: Vec<(usize, FaultKind)> = w.fired_wire.iter().map(|f| (f.tx, f.kind.clone())).collect();
    let rr = RunResult {
        k: 0,
        seed: sc.seed,
        violations,
        counters: stats.c,
        maxf: stats.maxf,
        trace_hash: format!("{:016x}", w.trace.finish()),
        fingerprint: format!("{:016x}", fp.finish()),
        nontrivial,
        sim_us: w.now_us(),
        polls: w.total_polls,
        txs: w.bus.borrow().txs.len() as u64,
        aborted,
        wall_us: t0.elapsed().as_micros() as u64,
    };
    (rr, fired)
}

// ------------------------------------------------------------------------------------------
// per-check metadata used by the driver and the evidence writer

use crate::gen::Tier;

pub fn default_runs(check: &str, tier: Tier) -> u64 {
    let (q, t) = match check {
        "C01" => (1500, 25_000),
        "C02" => (1200, 20_000),
        "C03" | "C04" | "C08" | "C14" => (3000, 150_000),
        "C06" => (1500, 30_000),
        "C11" => (3000, 60_000),
        "C12" => (3000, 40_000),
        "C05" => (16_000, 300_000),
        "C18" => (1500, 40_000),
        "C10" => (400_000, 8_000_000),
        "C16" => (200_000, 4_000_000),
        "C13" => (1500, 12_000),
        "C15" => (1500, 30_000),
        "C07" => (6000, 120_000),
        _ => (1000, 20_000),
    };
    match tier {
        Tier::Quick => q,
        Tier::Thorough => t,
    }
}

pub fn hang_is_violation(check: &str) -> bool {
    matches!(check, "C05" | "C14" | "C10")
}

pub fn probe_names(check: &str) -> Vec<&'static str> {
    match check {
        "C01" => vec!["probe.more_than_one_telegram_in_buffer", "probe.self_offline_address_collision", "probe.excluded_unsynchronised_claim_race"],
        "C02" => vec!["probe.more_than_one_telegram_in_buffer", "probe.self_offline_address_collision"],
        "C18" => vec!["probe.more_than_one_telegram_in_buffer"],
        "C10" => vec!["probe.late_rejection", "probe.delimiter_substitution_decodes_differently", "probe.more_than_one_telegram_in_buffer"],
        "C16" => vec!["probe.is_last_telegram_false_delivered", "probe.more_than_one_telegram_in_buffer", "probe.clean_telegram_after_discard_delivered"],
        "C05" => vec!["probe.more_than_one_telegram_in_buffer", "probe.self_offline_address_collision"],
        "C11" => vec!["probe.token_accepted_from_new_predecessor_on_second_offer", "probe.token_accepted_as_last_of_several_telegrams_in_one_poll", "probe.second_pass_attempt", "probe.third_pass_attempt", "probe.successor_removed", "probe.token_passed_to_self"],
        "C12" => vec!["probe.gap_poll_discovered_a_master", "probe.status_reply_not_ready", "probe.status_reply_ready", "probe.status_reply_in_ring"],
        "C06" => vec!["probe.self_offline_address_collision", "probe.more_than_one_telegram_in_buffer"],
        "C13" => vec!["probe.hold_time_already_over_at_first_cycle"],
        "C15" => vec!["probe.request_abandoned_with_token_loss", "probe.all_of_several_applications_declined_in_one_visit"],
        "C03" => vec!["probe.set_prm_after_validation_started", "probe.more_than_one_telegram_in_buffer"],
        "C04" => vec!["probe.sc_for_inputless_peripheral", "probe.more_than_one_telegram_in_buffer"],
        "C08" => vec!["probe.retry_limit_reached_without_any_reply"],
        "C14" => vec!["probe.global_control_in_the_middle_of_a_cycle"],
        _ => vec![],
    }
}

pub fn rule_of(check: &str) -> String {
    let common = "One case = one simulated run = generate(check, tier, base seed, run index): a scenario (configuration, poll schedules, fault plan) drawn from the run seed and executed in the discrete-event world against the real profirust code. Distinct = distinct abstract run fingerprint (hash of the sequence of (sender node, telegram class, destination) of every transmission plus the shape of the world; no times, no payloads). ";
    let nt = match check {
        "C01" => "Non-trivial = at least 20 token telegrams were sent by at least 2 different real stations (a ring existed and circulated).",
        "C02" => "Non-trivial = agreement was reached and at least 10 token passes were checked for order during the stability window.",
        "C18" => "Non-trivial = at least one Found/Discovered event was checked and the convergence verdict (two complete sweeps after the population went quiet) was reached.",
        "C10" => "One case = one sequence of isolated frames (valid, single-bit / single-byte damaged, truncated, noise, concatenated) sent over a byte-timed link to a receiver polled at random instants; distinct = distinct (first byte, length, damage kind) sequence and chunk mode. Non-trivial = the real decoder was evaluated against R1 on at least 3 buffers.",
        "C16" => "One case = one sequence of valid telegrams x chunking x poll instants x helper choice per poll; distinct as for C10. Non-trivial = at least 3 receive_data calls of the helpers were judged.",
        "C05" => "Non-trivial = at least 200 polls returned and at least one injected fault fired or the adversary sent at least 5 telegrams.",
        "C11" => "Non-trivial = the station claimed the token at least once and accepted a token from another station at least twice.",
        "C12" => "Non-trivial = at least 10 GAP polls were judged and at least one status reply of a real station or one complete wait between sweeps was checked.",
        "C06" => "Non-trivial = at least one injected fault fired and the remaining stations reached agreement again afterwards.",
        "C13" => "Non-trivial = at least 5 application requests were checked against the hold time and at least 5 rotations against the rotation bound.",
        "C15" => "Non-trivial = at least 10 application requests were sent and at least 10 round-robin steps were checked.",
        "C03" => "Non-trivial = at least one bring-up reached the ready state, at least 5 Data_Exchange requests were judged and at least one injected fault fired.",
        "C04" => "Non-trivial = at least 5 Data_Exchange requests were compared with the shadow output image and at least 5 input-image updates were checked.",
        "C07" => "Non-trivial = at least one injected fault fired and the liveness verdict was reached (all healthy peripherals judged at or before the deadline).",
        "C08" => "Non-trivial = at least 10 frame-count-bit toggles were checked and a retransmission or an injected fault occurred.",
        "C14" => "Non-trivial = at least 5 DP cycles were completed under observation.",
        _ => "Non-trivial = the run was not aborted.",
    };
    format!("{common}{nt}")
}

pub fn components(check: &str) -> serde_json::Value {
    if matches!(check, "C10" | "C16") {
        return serde_json::json!({
            "real_code": ["profirust::fdl::Telegram::deserialize / DataTelegram::deserialize / TokenTelegram::deserialize", "provided methods of profirust::phy::ProfibusPhy: receive_telegram, receive_all_telegrams, poll_pending_received_bytes", "profirust::phy::SimulatorPhy (C16, part of the runs)"],
            "stubs": ["sender process and byte-timed link (exact / burst / whole-frame delivery)", "queue PHY implementing ProfibusPhy::receive_data", "damage injector (bit flips, byte substitution, truncation, noise, concatenation)", "poll scheduler"]
        });
    }
    if matches!(check, "C03" | "C04" | "C07" | "C08" | "C14") {
        return serde_json::json!({
            "real_code": ["profirust::dp::DpMaster, Peripheral, PeripheralSet, ExtendedDiagnostics", "profirust::fdl::FdlActiveStation (token handling, reply admission, slot supervision)", "profirust::fdl telegram encode/decode", "provided methods of profirust::phy::ProfibusPhy", "profirust::fdl::ParametersBuilder (watchdog factors)", "LiveList / DpScanner when attached as second application"],
            "stubs": ["bus (exact-time, byte-accurate)", "harness PHY back end", "reference DP-V0 slaves R5 (Wait_Prm/Wait_Cfg/Data_Exch, diagnostics, FCB retry detection, watchdog)", "user process (pi_q writes, request_diagnostics, reset_address, take_last_events after every poll)", "fault injector", "clocks / poll scheduler"]
        });
    }
    serde_json::json!({
        "real_code": ["profirust::fdl::FdlActiveStation (incl. TokenRing, GAP logic)", "profirust::fdl telegram encode/decode (through every transmit and receive)", "provided methods of profirust::phy::ProfibusPhy (transmit_telegram, receive_telegram, receive_all_telegrams, poll_pending_received_bytes)", "profirust::fdl::live_list::LiveList (when attached)", "profirust::fdl::ParametersBuilder"],
        "stubs": ["bus (exact-time, byte-accurate)", "harness PHY back end implementing ProfibusPhy (serial/linux/rp2040 PHYs are not run)", "scripted traffic applications", "passive FDL responders", "clocks / poll scheduler"]
    })
}

pub fn assumptions(check: &str) -> Vec<String> {
    let mut v = vec![
        "Reaction-time assumption (DESIGN 5.1): every station is polled at least every P with 3*P + 44 bit + 2 us <= Tslot and P <= Tslot/4 (plus the delay of enabled buggify sites).".to_string(),
        "All stations share baud rate, slot time and HSA; addresses are distinct and below HSA.".to_string(),
        "Sampling, not enumeration: a clean batch is evidence, not proof.".to_string(),
    ];
    match check {
        "C01" => v.push("Cold start together = first polls within one poll period; the unsynchronised claim race and stale PHY buffers are excluded (DESIGN 5.2, 5.3). Joining stations start listening at a telegram boundary.".to_string()),
        "C02" => v.push("Convergence bound B_conv and stability window of DESIGN 5.4.".to_string()),
        "C03" | "C04" | "C07" | "C08" | "C14" => {
            v.push("Reference slaves answer within max_tsdr <= Tslot - 15 bit - 2 us (what build_verified demands minus the stack's clock resolution).".to_string());
            v.push("Option lengths stay within what DP allows (user parameters <= 237, configuration and images <= 244 bytes); set_passive/enter_stop/enter_clear (todo!()) are not generated; reset_address only when nothing is outstanding for that peripheral (DESIGN 5.7, F12).".to_string());
            if check == "C07" {
                v.push("Healthy peripheral = reference slave R5 powered, ident/config/lengths matching, watchdog satisfiable by the bus cycle (DESIGN 5.8).".to_string());
            }
        }
        _ => {}
    }
    v
}
