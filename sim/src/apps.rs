//! Applications attached to a real station: the real `DpMaster`, `LiveList`, `DpScanner`, the
//! unit application, and a scripted traffic generator — each behind a probe that logs every
//! `FdlApplication` callback (the call log of DESIGN §3 R7).

use crate::rng::Rng;
use crate::scenario::*;
use crate::wire::{self, Frame};
use profirust::dp::{DpMaster, Peripheral, PeripheralHandle, PeripheralOptions, PeripheralStorage};
use profirust::fdl::{
    DataTelegramHeader, FdlActiveStation, FdlApplication, FrameCountBit, FunctionCode, HighPrioOnly,
    RequestType, Telegram, TelegramTx, TelegramTxResponse,
};
use profirust::time::Instant;
use std::cell::RefCell;
use std::rc::Rc;

#[derive(Clone, Debug)]
pub enum AppCall {
    Tx {
        app: usize,
        hp: bool,
        /// (bytes, address a reply is expected from)
        sent: Option<(usize, Option<u8>)>,
    },
    Reply {
        app: usize,
        addr: u8,
        frame: Frame,
    },
    Timeout {
        app: usize,
        addr: u8,
    },
}

pub type CallLog = Rc<RefCell<Vec<AppCall>>>;

pub struct DpApp {
    pub master: DpMaster<'static>,
    pub handles: Vec<PeripheralHandle>,
    pub cfg: DpCfg,
    /// Harness copy of every output image, updated by the user process only.
    pub shadow_q: Vec<Vec<u8>>,
    pub operate: bool,
    /// Current address per peripheral (changes with reset_address).
    pub addrs: Vec<u8>,
}

fn leak<T: Clone>(v: &[T]) -> &'static [T] {
    Box::leak(v.to_vec().into_boxed_slice())
}

impl DpApp {
    pub fn new(cfg: &DpCfg) -> Self {
        let master = match cfg.slots {
            None => DpMaster::new(Vec::new()),
            Some(n) => {
                let storage: Vec<PeripheralStorage<'static>> = (0..n).map(|_| PeripheralStorage::default()).collect();
                let storage: &'static mut [PeripheralStorage<'static>] = Box::leak(storage.into_boxed_slice());
                DpMaster::new(storage)
            }
        };
        let mut app = DpApp {
            master,
            handles: Vec::new(),
            cfg: cfg.clone(),
            shadow_q: Vec::new(),
            operate: false,
            addrs: Vec::new(),
        };
        while app.handles.len() < cfg.peripherals.len() && cfg.peripherals[app.handles.len()].add_at_us == 0 {
            app.add_next();
        }
        app
    }

    /// `DpMaster::add()` for the next peripheral of the list that is not in the set yet.
    pub fn add_next(&mut self) -> Option<usize> {
        let k = self.handles.len();
        let p = self.cfg.peripherals.get(k)?.clone();
        let options = PeripheralOptions {
            ident_number: p.ident,
            sync_mode: p.sync,
            freeze_mode: p.freeze,
            groups: p.groups,
            max_tsdr: p.max_tsdr,
            fail_safe: p.fail_safe,
            user_parameters: p.user_prm.as_ref().map(|v| leak(v)),
            config: p.config.as_ref().map(|v| leak(v)),
        };
        let mut per = Peripheral::new(p.addr, options, vec![0u8; p.in_len], vec![0u8; p.out_len]);
        if p.diag_buf > 0 {
            per = per.with_diag_buffer(vec![0u8; p.diag_buf]);
        }
        self.handles.push(self.master.add(per));
        self.shadow_q.push(vec![0u8; p.out_len]);
        self.addrs.push(p.addr);
        Some(k)
    }

    /// Time at which the user process adds the next peripheral, if one is still to be added.
    pub fn next_add_at(&self) -> Option<u64> {
        self.cfg.peripherals.get(self.handles.len()).map(|p| p.add_at_us)
    }

    pub fn index_of_addr(&self, addr: u8) -> Option<usize> {
        self.addrs.iter().position(|a| *a == addr)
    }
}

/// What the user process did between two polls (DESIGN §2.3), reported to the monitors.
#[derive(Clone, Debug)]
pub enum UserAct {
    EnterOperate { app: usize },
    WriteQ { app: usize, periph: usize },
    RequestDiag { app: usize, periph: usize },
    ResetAddress { app: usize, periph: usize, addr: u8, inflight: bool },
    /// `DpMaster::add()` while the bus runs.
    AddPeripheral { app: usize, periph: usize },
}

pub struct TrafficApp {
    pub cfg: TrafficCfg,
    pub rng: Rng,
    pub burst_left: u32,
    pub sent: u64,
    pub declined: u64,
}

impl TrafficApp {
    pub fn new(cfg: &TrafficCfg, seed: u64) -> Self {
        let burst_left = match cfg.appetite {
            Appetite::Burst(n) => n,
            _ => 0,
        };
        TrafficApp {
            cfg: cfg.clone(),
            rng: Rng::new(seed),
            burst_left,
            sent: 0,
            declined: 0,
        }
    }
}

impl FdlApplication for TrafficApp {
    fn transmit_telegram(
        &mut self,
        _now: Instant,
        fdl: &FdlActiveStation,
        tx: TelegramTx,
        high_prio_only: HighPrioOnly,
    ) -> Option<TelegramTxResponse> {
        let want = match self.cfg.appetite {
            Appetite::Never => false,
            Appetite::Always => true,
            Appetite::Sometimes(pm) => self.rng.chance(u64::from(pm), 1000),
            Appetite::Burst(n) => {
                if self.burst_left == 0 {
                    self.burst_left = n;
                    false
                } else {
                    self.burst_left -= 1;
                    true
                }
            }
        };
        if !want || self.cfg.targets.is_empty() || self.cfg.kinds.is_empty() {
            self.declined += 1;
            return None;
        }
        let mut kind = self.rng.pick(&self.cfg.kinds).clone();
        if high_prio_only == HighPrioOnly::Yes && self.cfg.honour_hp {
            kind = match kind {
                ReqKind::SdnLow | ReqKind::SdnHigh | ReqKind::TimeEvent | ReqKind::ClockValue => ReqKind::SdnHigh,
                ReqKind::SdaLow | ReqKind::SdaHigh => ReqKind::SdaHigh,
                _ => ReqKind::SrdHigh,
            };
        }
        let da = *self.rng.pick(&self.cfg.targets);
        let sa = fdl.parameters().address;
        self.sent += 1;
        if kind == ReqKind::FdlStatus {
            return Some(tx.send_fdl_status_request(da, sa));
        }
        let req = match kind {
            ReqKind::SdnLow => RequestType::SdnLow,
            ReqKind::SdnHigh => RequestType::SdnHigh,
            ReqKind::SrdLow => RequestType::SrdLow,
            ReqKind::SrdHigh => RequestType::SrdHigh,
            ReqKind::SdaLow => RequestType::SdaLow,
            ReqKind::SdaHigh => RequestType::SdaHigh,
            ReqKind::Ident => RequestType::Ident,
            ReqKind::LsapStatus => RequestType::LsapStatus,
            ReqKind::MulticastSrd => RequestType::MulticastSrd,
            ReqKind::TimeEvent => RequestType::TimeEvent,
            ReqKind::ClockValue => RequestType::ClockValue,
            ReqKind::FdlStatus => unreachable!(),
        };
        let n = self.rng.range(0, self.cfg.max_pdu as u64) as usize;
        let fill = self.rng.byte();
        // SAP 40/41: not a DP service, so reference slaves answer it generically
        Some(tx.send_data_telegram(
            DataTelegramHeader {
                da,
                sa,
                dsap: Some(40),
                ssap: Some(41),
                fc: FunctionCode::Request {
                    fcb: FrameCountBit::Inactive,
                    req,
                },
            },
            n,
            |buf| buf.fill(fill),
        ))
    }

    fn receive_reply(&mut self, _now: Instant, _fdl: &FdlActiveStation, _addr: u8, _telegram: Telegram) {}

    fn handle_timeout(&mut self, _now: Instant, _fdl: &FdlActiveStation, _addr: u8) {}
}

pub enum AppKind {
    Unit,
    Dp(Box<DpApp>),
    Live(profirust::fdl::live_list::LiveList),
    Scan(profirust::dp::scan::DpScanner),
    Traffic(TrafficApp),
}

/// The logging wrapper handed to the station.
pub struct Probe {
    pub idx: usize,
    pub kind: AppKind,
    pub log: CallLog,
}

impl Probe {
    pub fn new(idx: usize, cfg: &AppCfg, seed: u64, log: CallLog) -> Self {
        let kind = match cfg {
            AppCfg::Unit => AppKind::Unit,
            AppCfg::Dp(c) => AppKind::Dp(Box::new(DpApp::new(c))),
            AppCfg::LiveList => AppKind::Live(profirust::fdl::live_list::LiveList::new()),
            AppCfg::Scanner => AppKind::Scan(profirust::dp::scan::DpScanner::new()),
            AppCfg::Traffic(c) => AppKind::Traffic(TrafficApp::new(c, seed)),
        };
        Probe { idx, kind, log }
    }

    pub fn dp(&self) -> Option<&DpApp> {
        match &self.kind {
            AppKind::Dp(d) => Some(d),
            _ => None,
        }
    }
    pub fn dp_mut(&mut self) -> Option<&mut DpApp> {
        match &mut self.kind {
            AppKind::Dp(d) => Some(d),
            _ => None,
        }
    }
}

impl FdlApplication for Probe {
    fn transmit_telegram(
        &mut self,
        now: Instant,
        fdl: &FdlActiveStation,
        tx: TelegramTx,
        high_prio_only: HighPrioOnly,
    ) -> Option<TelegramTxResponse> {
        let r = match &mut self.kind {
            AppKind::Unit => ().transmit_telegram(now, fdl, tx, high_prio_only),
            AppKind::Dp(d) => d.master.transmit_telegram(now, fdl, tx, high_prio_only),
            AppKind::Live(l) => l.transmit_telegram(now, fdl, tx, high_prio_only),
            AppKind::Scan(s) => s.transmit_telegram(now, fdl, tx, high_prio_only),
            AppKind::Traffic(t) => t.transmit_telegram(now, fdl, tx, high_prio_only),
        };
        self.log.borrow_mut().push(AppCall::Tx {
            app: self.idx,
            hp: high_prio_only == HighPrioOnly::Yes,
            sent: r.map(|r| (r.bytes_sent(), r.expects_reply())),
        });
        r
    }

    fn receive_reply(&mut self, now: Instant, fdl: &FdlActiveStation, addr: u8, telegram: Telegram) {
        self.log.borrow_mut().push(AppCall::Reply {
            app: self.idx,
            addr,
            frame: wire::from_profirust(&telegram),
        });
        match &mut self.kind {
            AppKind::Unit => ().receive_reply(now, fdl, addr, telegram),
            AppKind::Dp(d) => d.master.receive_reply(now, fdl, addr, telegram),
            AppKind::Live(l) => l.receive_reply(now, fdl, addr, telegram),
            AppKind::Scan(s) => s.receive_reply(now, fdl, addr, telegram),
            AppKind::Traffic(t) => t.receive_reply(now, fdl, addr, telegram),
        }
    }

    fn handle_timeout(&mut self, now: Instant, fdl: &FdlActiveStation, addr: u8) {
        self.log.borrow_mut().push(AppCall::Timeout { app: self.idx, addr });
        match &mut self.kind {
            AppKind::Unit => ().handle_timeout(now, fdl, addr),
            AppKind::Dp(d) => d.master.handle_timeout(now, fdl, addr),
            AppKind::Live(l) => l.handle_timeout(now, fdl, addr),
            AppKind::Scan(s) => s.handle_timeout(now, fdl, addr),
            AppKind::Traffic(t) => t.handle_timeout(now, fdl, addr),
        }
    }
}
