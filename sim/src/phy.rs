//! Harness PHY: implements `profirust::phy::ProfibusPhy` on top of the simulated bus and records
//! what the stack does with it (DESIGN §2.2: transmissions, RX consumption log, contract checks).

use crate::bus::{Bus, NodeId, CHAR};
use crate::wire::{self, Dec, Frame};
use profirust::phy::ProfibusPhy;
use profirust::time::Instant;
use std::cell::RefCell;
use std::rc::Rc;

#[derive(Clone, Copy, Debug, PartialEq, Eq)]
pub enum TxDone {
    /// `poll_transmission` is true exactly until the last character has left.
    Exact,
    /// ... for `n` ticks longer.
    Late(u64),
    /// ... never (bytes are "queued", like a serial port with an OS buffer).
    Early,
}

#[derive(Clone, Debug)]
pub enum RxVerdict {
    /// The closure dropped exactly the first frame R1 finds in the buffer.
    Consumed {
        frame: Frame,
        /// Bus transmission all bytes of the frame came from (None if mixed).
        src: Option<usize>,
        /// Nothing was buffered behind it.
        last: bool,
        /// False if the frame was cut out of the remainder of a transmission whose beginning
        /// the closure had dropped as undecodable (a re-synchronisation inside a damaged
        /// telegram: these bytes were never sent as a telegram of their own).
        aligned: bool,
    },
    /// The closure dropped the whole buffer and R1 rejects it.
    Discarded { bytes: usize },
    /// The closure dropped the whole buffer although R1 does not reject it (the station empties
    /// its receive buffer when a slot time expires).
    Flushed { bytes: usize },
    /// Anything else the closure did with a non-empty drop.
    Anomaly { dropped: usize, shown: usize, r1: String },
}

#[derive(Clone, Debug)]
pub struct RxEvent {
    pub verdict: RxVerdict,
}

pub struct HarnessPhy {
    pub bus: Rc<RefCell<Bus>>,
    pub id: NodeId,
    next_tx: usize,
    next_byte: usize,
    dup_pass: bool,
    pub rx: Vec<u8>,
    rx_src: Vec<u32>,
    /// Per buffered byte: remainder of a transmission whose beginning was dropped as undecodable.
    rx_taint: Vec<bool>,
    taint_tx: Option<u32>,
    pub tx_end: u64,
    /// Global time of the current poll in ticks; set by the world before every poll.
    pub now_ticks: u64,
    /// Local time the world passed to `poll`; the stack must hand it through unchanged.
    pub now_local: i64,
    pub tx_done: TxDone,
    /// RX bytes become visible only at multiples of this many ticks (0 = immediately).
    pub rx_chunk: u64,
    /// Transmitter latency (ticks, maximum) and the seed of the per-transmission amounts.
    pub tx_lag_max: u64,
    pub tx_lag_seed: u64,
    tx_count: u64,
    pub stat_lagged_tx: u64,
    /// Per-poll logs, cleared by the world.
    pub rx_events: Vec<RxEvent>,
    pub tx_started: Vec<usize>,
    pub contract: Vec<String>,
    pub rx_calls: u32,
    /// Bytes that became visible to the station since the world last cleared the counter.
    pub new_rx_bytes: usize,
    /// Statistics over the PHY's life.
    pub stat_multi_in_buffer: u64,
    pub stat_discards: u64,
    pub stat_consumed: u64,
    pub stat_flushes: u64,
}

impl HarnessPhy {
    /// A PHY that starts listening at global time `t`: it sees transmissions that *start* at or
    /// after `t` (a UART enabled in the middle of a frame produces framing errors until the line
    /// idles, DESIGN §5.3).
    pub fn new(bus: Rc<RefCell<Bus>>, id: NodeId, t: u64) -> Self {
        let next_tx = {
            let b = bus.borrow();
            let mut i = b.txs.len();
            while i > 0 && b.txs[i - 1].start >= t {
                i -= 1;
            }
            i
        };
        HarnessPhy {
            bus,
            id,
            next_tx,
            next_byte: 0,
            dup_pass: false,
            rx: Vec::new(),
            rx_src: Vec::new(),
            rx_taint: Vec::new(),
            taint_tx: None,
            tx_end: 0,
            now_ticks: t,
            now_local: 0,
            tx_done: TxDone::Exact,
            rx_chunk: 0,
            tx_lag_max: 0,
            tx_lag_seed: 0,
            tx_count: 0,
            stat_lagged_tx: 0,
            rx_events: Vec::new(),
            tx_started: Vec::new(),
            contract: Vec::new(),
            rx_calls: 0,
            new_rx_bytes: 0,
            stat_multi_in_buffer: 0,
            stat_discards: 0,
            stat_consumed: 0,
            stat_flushes: 0,
        }
    }

    pub fn begin_poll(&mut self, now_ticks: u64, now_local: i64) {
        self.now_ticks = now_ticks;
        self.now_local = now_local;
        self.rx_events.clear();
        self.tx_started.clear();
        self.contract.clear();
        self.rx_calls = 0;
    }

    pub fn preload_rx(&mut self, bytes: &[u8]) {
        for b in bytes {
            self.rx.push(*b);
            self.rx_src.push(u32::MAX);
            self.rx_taint.push(false);
        }
    }

    fn visible_at(&self, avail: u64) -> u64 {
        if self.rx_chunk == 0 {
            avail
        } else {
            avail.div_ceil(self.rx_chunk) * self.rx_chunk
        }
    }

    /// Move every character that has completely arrived by `now_ticks` into the RX buffer.
    fn pull(&mut self) {
        let bus = self.bus.borrow();
        let now = self.now_ticks;
        while self.next_tx < bus.txs.len() {
            let tx = &bus.txs[self.next_tx];
            let mine = tx.sender == self.id;
            let lost = (tx.lost_for >> self.id) & 1 == 1;
            if mine || lost {
                self.next_tx += 1;
                self.next_byte = 0;
                self.dup_pass = false;
                continue;
            }
            while self.next_byte < tx.seen.len() {
                let avail = if self.dup_pass {
                    tx.start + tx.seen.len() as u64 * CHAR
                } else {
                    tx.start + (self.next_byte as u64 + 1) * CHAR
                };
                if self.visible_at(avail) <= now {
                    self.new_rx_bytes += 1;
                    self.rx.push(tx.seen[self.next_byte]);
                    self.rx_src.push(self.next_tx as u32);
                    self.rx_taint.push(self.taint_tx == Some(self.next_tx as u32));
                    self.next_byte += 1;
                } else {
                    return;
                }
            }
            // The transmission may still grow?  No: bytes are fixed at transmit time; but it may
            // not be over yet when `seen` was truncated - nothing more will come from it.
            if !self.dup_pass && (tx.dup_for >> self.id) & 1 == 1 {
                self.dup_pass = true;
                self.next_byte = 0;
                continue;
            }
            self.next_tx += 1;
            self.next_byte = 0;
            self.dup_pass = false;
        }
    }

    fn check_now(&mut self, now: Instant, what: &str) {
        if now.total_micros() != self.now_local {
            self.contract
                .push(format!("{what}: stack passed now={} but poll was called with now={}", now.total_micros(), self.now_local));
        }
    }

    pub fn is_transmitting(&self) -> bool {
        self.now_ticks < self.tx_end
    }
}

impl ProfibusPhy for HarnessPhy {
    fn poll_transmission(&mut self, now: Instant) -> bool {
        self.check_now(now, "poll_transmission");
        match self.tx_done {
            TxDone::Exact => self.now_ticks < self.tx_end,
            TxDone::Late(d) => self.tx_end != 0 && self.now_ticks < self.tx_end + d,
            TxDone::Early => false,
        }
    }

    fn transmit_data<F, R>(&mut self, now: Instant, f: F) -> R
    where
        F: FnOnce(&mut [u8]) -> (usize, R),
    {
        self.check_now(now, "transmit_data");
        let mut buf = [0u8; 300];
        let (len, r) = f(&mut buf);
        if len > buf.len() {
            self.contract.push(format!("transmit_data: closure reports {len} bytes written"));
            return r;
        }
        if len > 0 {
            // (with an "early TX done" PHY the stack cannot know; the bus-level overlap oracle of
            // C01 judges that mode)
            if self.now_ticks < self.tx_end && self.tx_done != TxDone::Early {
                self.contract
                    .push("transmit_data called while the previous transmission of this station is still on the wire".to_string());
            }
            // transmitter latency: a different amount for every transmission
            let lag = if self.tx_lag_max == 0 {
                0
            } else {
                self.tx_count += 1;
                let mut z = self.tx_lag_seed.wrapping_add(self.tx_count.wrapping_mul(0x9E37_79B9_7F4A_7C15));
                z = (z ^ (z >> 30)).wrapping_mul(0xBF58_476D_1CE4_E5B9);
                z = (z ^ (z >> 27)).wrapping_mul(0x94D0_49BB_1331_11EB);
                z ^= z >> 31;
                // half of the transmissions go out at once
                if z & 1 == 0 {
                    0
                } else {
                    self.stat_lagged_tx += 1;
                    (z >> 1) % (self.tx_lag_max + 1)
                }
            };
            let start = self.now_ticks + lag;
            let idx = self.bus.borrow_mut().transmit(start, self.id, buf[..len].to_vec(), true, false);
            self.tx_end = start + len as u64 * CHAR;
            self.tx_started.push(idx);
        }
        r
    }

    fn receive_data<F, R>(&mut self, now: Instant, f: F) -> R
    where
        F: FnOnce(&[u8]) -> (usize, R),
    {
        self.check_now(now, "receive_data");
        if self.now_ticks < self.tx_end && self.tx_done != TxDone::Early {
            self.contract
                .push("receive_data called while the PHY reports an ongoing transmission".to_string());
        }
        self.pull();
        self.rx_calls += 1;
        let shown = self.rx.len();
        let (dropped, r) = f(&self.rx);
        if dropped > shown {
            self.contract
                .push(format!("receive_data: closure drops {dropped} of {shown} bytes"));
            self.rx.clear();
            self.rx_src.clear();
            self.rx_taint.clear();
            return r;
        }
        if dropped > 0 {
            let verdict = match wire::decode(&self.rx) {
                Dec::Ok(frame, n) if n == dropped => {
                    let s0 = self.rx_src[0];
                    let src = if s0 != u32::MAX && self.rx_src[..n].iter().all(|s| *s == s0) {
                        Some(s0 as usize)
                    } else {
                        None
                    };
                    self.stat_consumed += 1;
                    if n != shown {
                        self.stat_multi_in_buffer += 1;
                    }
                    RxVerdict::Consumed {
                        frame,
                        src,
                        last: n == shown,
                        aligned: !self.rx_taint[..n].iter().any(|t| *t),
                    }
                }
                Dec::Bad if dropped == shown => {
                    self.stat_discards += 1;
                    RxVerdict::Discarded { bytes: dropped }
                }
                _ if dropped == shown => {
                    self.stat_flushes += 1;
                    RxVerdict::Flushed { bytes: dropped }
                }
                other => {
                    // only a part of an undecodable buffer is dropped: what follows from the
                    // same transmission is not a telegram anybody sent
                    if dropped < shown && !matches!(other, Dec::Ok(..)) {
                        let s0 = self.rx_src[0];
                        if s0 != u32::MAX {
                            self.taint_tx = Some(s0);
                            for i in dropped..shown {
                                if self.rx_src[i] == s0 {
                                    self.rx_taint[i] = true;
                                }
                            }
                        }
                    }
                    RxVerdict::Anomaly {
                    dropped,
                    shown,
                    r1: match other {
                        Dec::Ok(f, n) => format!("ok({}, {n})", f.short()),
                        Dec::NeedMore => "need-more".into(),
                        Dec::Bad => "bad".into(),
                    },
                    }
                }
            };
            self.rx_events.push(RxEvent { verdict });
            self.rx.drain(..dropped);
            self.rx_src.drain(..dropped);
            self.rx_taint.drain(..dropped);
        }
        r
    }
}
