//! Minimisation of a failing scenario (DESIGN §4.3): shrink while the same oracle id and
//! signature class keeps failing.

use crate::checks::{run_scenario_full, RunResult};
use crate::scenario::*;
use crate::world::Violation;

pub struct Shrunk {
    pub scenario: Scenario,
    pub violation: Violation,
    pub result: RunResult,
    pub tried: u32,
    pub accepted: u32,
}

fn same_class(v: &Violation, target: &Violation) -> bool {
    v.property == target.property && v.oracle == target.oracle && v.sig == target.sig
}

fn fails(sc: &Scenario, target: &Violation) -> Option<(Violation, RunResult, Vec<(usize, FaultKind)>)> {
    let (r, fired) = run_scenario_full(sc, false);
    let v = r.violations.iter().find(|v| same_class(v, target)).cloned()?;
    Some((v, r, fired))
}

fn slot_us(sc: &Scenario) -> u64 {
    sc.world
        .stations
        .first()
        .map(|s| u64::from(s.slot_bits) * 1_000_000 / sc.world.baud)
        .unwrap_or(1000)
        .max(1)
}

pub fn shrink(sc0: &Scenario, target: &Violation, max_tries: u32, max_wall_s: u64) -> Option<Shrunk> {
    let t0 = std::time::Instant::now();
    let (mut v, mut res, mut fired) = fails(sc0, target)?;
    let mut sc = sc0.clone();
    let mut tried = 0u32;
    let mut accepted = 0u32;
    let budget_left = |tried: u32| tried < max_tries && t0.elapsed().as_secs() < max_wall_s;

    macro_rules! attempt {
        ($cand:expr) => {{
            let cand: Scenario = $cand;
            let mut ok = false;
            if budget_left(tried) {
                tried += 1;
                if let Some((v2, r2, f2)) = fails(&cand, target) {
                    sc = cand;
                    v = v2;
                    res = r2;
                    fired = f2;
                    accepted += 1;
                    ok = true;
                }
            }
            ok
        }};
    }

    // 1. truncate the run just after the violation
    {
        let mut c = sc.clone();
        c.world.end_us = v.t_us + 2 * slot_us(&c) + 2;
        attempt!(c);
    }

    // 2. storms -> explicit wire faults (as fired), then ddmin over the fault list
    if sc.faults.iter().any(|f| matches!(f.kind, FaultKind::Storm { .. })) {
        let mut c = sc.clone();
        c.faults.retain(|f| !matches!(f.kind, FaultKind::Storm { .. }));
        for (tx, kind) in &fired {
            c.faults.push(Fault {
                trig: Trigger::NthTx {
                    n: *tx as u32,
                    class: TxClass::Any,
                },
                kind: kind.clone(),
                delay_us: 0,
            });
        }
        attempt!(c);
    }
    // ddmin
    let mut chunk = (sc.faults.len() / 2).max(1);
    while !sc.faults.is_empty() && budget_left(tried) {
        let mut progress = false;
        let mut i = 0;
        while i < sc.faults.len() && budget_left(tried) {
            let mut c = sc.clone();
            let hi = (i + chunk).min(c.faults.len());
            c.faults.drain(i..hi);
            if attempt!(c) {
                progress = true;
            } else {
                i += chunk;
            }
        }
        if chunk == 1 && !progress {
            break;
        }
        if !progress {
            chunk = (chunk / 2).max(1);
        }
    }

    // rx engine: drop items, simplify delivery
    if sc.rx.is_some() {
        let mut i = 0;
        while i < sc.rx.as_ref().unwrap().items.len() && sc.rx.as_ref().unwrap().items.len() > 1 && budget_left(tried) {
            let mut c = sc.clone();
            c.rx.as_mut().unwrap().items.remove(i);
            if !attempt!(c) {
                i += 1;
            }
        }
        if sc.rx.as_ref().unwrap().chunk != crate::rx::ChunkMode::Exact {
            let mut c = sc.clone();
            c.rx.as_mut().unwrap().chunk = crate::rx::ChunkMode::Exact;
            attempt!(c);
        }
        if sc.rx.as_ref().unwrap().simulator_phy {
            let mut c = sc.clone();
            c.rx.as_mut().unwrap().simulator_phy = false;
            attempt!(c);
        }
        return Some(Shrunk { scenario: sc, violation: v, result: res, tried, accepted });
    }

    // 3. structural simplifications, repeated until nothing helps
    loop {
        let before = accepted;
        // stations: never go online
        for i in 0..sc.world.stations.len() {
            if sc.world.stations[i].plan.is_empty() {
                continue;
            }
            if v.station == Some(sc.world.stations[i].addr) && sc.world.stations.len() > 1 {
                // keep the station the violation is about for last
            }
            let mut c = sc.clone();
            c.world.stations[i].plan.clear();
            attempt!(c);
        }
        // applications -> unit application
        for i in 0..sc.world.stations.len() {
            for a in 0..sc.world.stations[i].apps.len() {
                if matches!(sc.world.stations[i].apps[a], AppCfg::Unit) {
                    continue;
                }
                let mut c = sc.clone();
                c.world.stations[i].apps[a] = AppCfg::Unit;
                attempt!(c);
            }
            // trailing unit applications can go
            while matches!(sc.world.stations[i].apps.last(), Some(AppCfg::Unit)) && budget_left(tried) {
                let mut c = sc.clone();
                c.world.stations[i].apps.pop();
                if !attempt!(c) {
                    break;
                }
            }
            // peripherals of DP masters (from the back, keeps indices of the others)
            for a in 0..sc.world.stations[i].apps.len() {
                loop {
                    let n = match &sc.world.stations[i].apps[a] {
                        AppCfg::Dp(d) => d.peripherals.len(),
                        _ => 0,
                    };
                    if n == 0 || !budget_left(tried) {
                        break;
                    }
                    let mut c = sc.clone();
                    if let AppCfg::Dp(d) = &mut c.world.stations[i].apps[a] {
                        d.peripherals.pop();
                    }
                    if !attempt!(c) {
                        break;
                    }
                }
                // user actions off
                let has_user = matches!(&sc.world.stations[i].apps[a], AppCfg::Dp(d) if d.user.write_pm + d.user.diag_pm + d.user.reset_pm + d.user.reset_inflight_pm > 0);
                if has_user {
                    for which in 0..4 {
                        let mut c = sc.clone();
                        if let AppCfg::Dp(d) = &mut c.world.stations[i].apps[a] {
                            match which {
                                0 => d.user.write_pm = 0,
                                1 => d.user.diag_pm = 0,
                                2 => d.user.reset_pm = 0,
                                _ => d.user.reset_inflight_pm = 0,
                            }
                        }
                        attempt!(c);
                    }
                }
            }
        }
        // slaves: never powered
        for i in 0..sc.world.slaves.len() {
            if sc.world.slaves[i].power.is_empty() {
                continue;
            }
            let mut c = sc.clone();
            c.world.slaves[i].power.clear();
            attempt!(c);
        }
        if sc.world.adversary.is_some() {
            let mut c = sc.clone();
            c.world.adversary = None;
            attempt!(c);
        }
        // schedule / buggify simplifications
        for i in 0..sc.world.stations.len() {
            let s = sc.world.stations[i].clone();
            if s.plan.is_empty() {
                continue;
            }
            let mut edits: Vec<Box<dyn Fn(&mut StationCfg)>> = Vec::new();
            if s.skew_ppm != 0 {
                edits.push(Box::new(|s| s.skew_ppm = 0));
            }
            if s.clock_off_us != 0 {
                edits.push(Box::new(|s| s.clock_off_us = 0));
            }
            if s.dup_poll_pm != 0 {
                edits.push(Box::new(|s| s.dup_poll_pm = 0));
            }
            if s.tx_lag_us != 0 {
                edits.push(Box::new(|s| s.tx_lag_us = 0));
            }
            if s.rx_chunk_us != 0 {
                edits.push(Box::new(|s| s.rx_chunk_us = 0));
            }
            if s.tx_done != TxDoneCfg::Exact {
                edits.push(Box::new(|s| s.tx_done = TxDoneCfg::Exact));
            }
            if s.p_min_us != s.p_max_us {
                edits.push(Box::new(|s| s.p_min_us = s.p_max_us));
            }
            if !s.stale_rx.is_empty() {
                edits.push(Box::new(|s| s.stale_rx.clear()));
            }
            if s.gap > 1 {
                edits.push(Box::new(|s| s.gap = 1));
            }
            if s.retry > 1 {
                edits.push(Box::new(|s| s.retry = 1));
            }
            if !s.single_poll_api {
                edits.push(Box::new(|s| s.single_poll_api = true));
            }
            for e in edits {
                let mut c = sc.clone();
                e(&mut c.world.stations[i]);
                attempt!(c);
            }
        }
        // common HSA: lowest value above all addresses
        {
            let live: Vec<&StationCfg> = sc.world.stations.iter().filter(|s| !s.plan.is_empty()).collect();
            if let Some(max_addr) = live.iter().map(|s| s.addr).max() {
                let want = max_addr + 1;
                if live.iter().any(|s| s.hsa > want) && want <= 126 {
                    let mut c = sc.clone();
                    for s in c.world.stations.iter_mut() {
                        if s.hsa > want {
                            s.hsa = want;
                        }
                    }
                    attempt!(c);
                }
            }
        }
        // re-truncate
        {
            let want = v.t_us + 2 * slot_us(&sc) + 2;
            if want < sc.world.end_us {
                let mut c = sc.clone();
                c.world.end_us = want;
                attempt!(c);
            }
        }
        if accepted == before || !budget_left(tried) {
            break;
        }
    }

    Some(Shrunk {
        scenario: sc,
        violation: v,
        result: res,
        tried,
        accepted,
    })
}
