//! Search driver: seeded search over scenarios in worker sub-processes, hang watchdog,
//! minimisation, replay files, known findings, evidence (DESIGN §4).

use crate::checks::{self, run_scenario, RunResult};
use crate::gen::{generate, Tier};
use crate::scenario::{Expect, Scenario};
use crate::world::Violation;
use serde::Deserialize;
use serde_json::json;
use std::collections::{BTreeMap, BTreeSet};
use std::io::{BufRead, BufReader, Write};
use std::process::{Child, Command, Stdio};
use std::sync::mpsc;
use std::time::{Duration, Instant};

/// Limits for one run, in seconds of CPU time of the worker process (typical: milliseconds; a
/// `poll()` that does not return burns CPU).  CPU time, not wall clock, so that an overloaded
/// machine cannot turn slow runs into suspected hangs.
const HANG_LIMIT_S: u64 = 60;
const HANG_RECHECK_S: u64 = 120;
/// Wall-clock fallback (a process that neither finishes nor uses CPU).
const HANG_WALL_FACTOR: u64 = 30;

/// CPU time (user + system) a process has used so far, in milliseconds (Linux: /proc/<pid>/stat,
/// clock ticks of 10 ms).
fn cpu_ms(pid: u32) -> Option<u64> {
    let s = std::fs::read_to_string(format!("/proc/{pid}/stat")).ok()?;
    let rest = &s[s.rfind(')')? + 1..];
    let f: Vec<&str> = rest.split_whitespace().collect();
    // after "pid (comm)": state is field 0, utime field 11, stime field 12
    let ut: u64 = f.get(11)?.parse().ok()?;
    let st: u64 = f.get(12)?.parse().ok()?;
    Some((ut + st) * 10)
}

/// Has the run that started at wall-clock `t` / CPU reading `cpu0` of process `pid` exceeded `limit_s`?
fn over_limit(pid: u32, t: Instant, cpu0: Option<u64>, limit_s: u64) -> bool {
    if t.elapsed().as_secs() > limit_s * HANG_WALL_FACTOR {
        return true;
    }
    match (cpu0, cpu_ms(pid)) {
        (Some(a), Some(b)) => b.saturating_sub(a) > limit_s * 1000,
        // no /proc: wall clock
        _ => t.elapsed().as_secs() > limit_s,
    }
}

fn parse_tier(s: &str) -> Tier {
    match s {
        "quick" => Tier::Quick,
        "thorough" => Tier::Thorough,
        _ => {
            eprintln!("HARNESS ERROR: unknown tier {s}");
            std::process::exit(2)
        }
    }
}

fn flag(args: &[String], name: &str) -> Option<String> {
    // the last occurrence wins (the wrapper passes its defaults first)
    args.iter().rposition(|a| a == name).and_then(|i| args.get(i + 1).cloned())
}

pub fn dispatch(args: &[String]) -> i32 {
    match args[0].as_str() {
        "check" => cmd_check(args),
        "worker" => cmd_worker(args),
        "replay" => cmd_replay(args),
        "run" => cmd_run(args),
        "gen" => {
            let sc = generate(&args[1], parse_tier(&args[2]), args[3].parse().unwrap(), args[4].parse().unwrap());
            println!("{}", serde_json::to_string_pretty(&sc).unwrap());
            0
        }
        "shrink" => cmd_shrink(args),
        "determinism" => cmd_determinism(args),
        _ => {
            eprintln!("HARNESS ERROR: unknown command {}", args[0]);
            2
        }
    }
}

// ------------------------------------------------------------------------------------------

fn cmd_worker(args: &[String]) -> i32 {
    let check = &args[1];
    let tier = parse_tier(&args[2]);
    let seed: u64 = args[3].parse().unwrap();
    let start: u64 = args[4].parse().unwrap();
    let stride: u64 = args[5].parse().unwrap();
    let end: u64 = args[6].parse().unwrap();
    let out = std::io::stdout();
    let mut k = start;
    while k < end {
        {
            let mut o = out.lock();
            writeln!(o, "BEGIN {k}").unwrap();
            o.flush().unwrap();
        }
        let sc = generate(check, tier, seed, k);
        let mut r = run_scenario(&sc, false);
        r.k = k;
        {
            let mut o = out.lock();
            writeln!(o, "RESULT {}", serde_json::to_string(&r).unwrap()).unwrap();
            o.flush().unwrap();
        }
        k += stride;
    }
    println!("DONE");
    0
}

fn cmd_run(args: &[String]) -> i32 {
    let verbose = args.iter().any(|a| a == "-v");
    if args.iter().any(|a| a == "--log") {
        crate::logger::set_echo(true);
    }
    let sc = generate(&args[1], parse_tier(&args[2]), args[3].parse().unwrap(), args[4].parse().unwrap());
    let r = run_scenario(&sc, verbose);
    println!("{}", serde_json::to_string_pretty(&r).unwrap());
    if r.violations.is_empty() {
        0
    } else {
        1
    }
}

fn cmd_shrink(args: &[String]) -> i32 {
    // pbsim shrink <in.json> <out.json> <max_tries> <max_wall_s>
    let sc: Scenario = serde_json::from_str(&std::fs::read_to_string(&args[1]).unwrap()).unwrap();
    let exp = sc.expect.clone().expect("shrink input needs expect");
    let target = Violation {
        property: exp.property.clone(),
        oracle: exp.oracle.clone(),
        sig: exp.sig.clone(),
        t_us: exp.t_us,
        station: None,
        detail: String::new(),
    };
    let tries: u32 = args[3].parse().unwrap();
    let wall: u64 = args[4].parse().unwrap();
    match crate::shrink::shrink(&sc, &target, tries, wall) {
        Some(s) => {
            let mut out = s.scenario.clone();
            out.expect = Some(Expect {
                property: s.violation.property.clone(),
                oracle: s.violation.oracle.clone(),
                sig: s.violation.sig.clone(),
                t_us: s.violation.t_us,
                trace_hash: s.result.trace_hash.clone(),
                detail: s.violation.detail.clone(),
            });
            std::fs::write(&args[2], serde_json::to_string_pretty(&out).unwrap()).unwrap();
            eprintln!("shrink: {} candidates tried, {} accepted", s.tried, s.accepted);
            0
        }
        None => {
            eprintln!("shrink: the violation did not reproduce in the shrinker");
            3
        }
    }
}

fn cmd_replay(args: &[String]) -> i32 {
    let verbose = args.iter().any(|a| a == "-v");
    if args.iter().any(|a| a == "--log") {
        crate::logger::set_echo(true);
    }
    let text = match std::fs::read_to_string(&args[1]) {
        Ok(t) => t,
        Err(e) => {
            eprintln!("HARNESS ERROR: cannot read {}: {e}", args[1]);
            return 2;
        }
    };
    let sc: Scenario = match serde_json::from_str(&text) {
        Ok(s) => s,
        Err(e) => {
            eprintln!("HARNESS ERROR: cannot parse {}: {e}", args[1]);
            return 2;
        }
    };
    let exp = sc.expect.clone();
    if let Some(e) = &exp {
        if e.oracle == "total.hang" && !args.iter().any(|a| a == "--inner") {
            // a hang must be replayed under a watchdog
            let exe = std::env::current_exe().unwrap();
            let mut child = Command::new(exe).args(["replay", &args[1], "--inner"]).stdout(Stdio::null()).spawn().unwrap();
            let t0 = Instant::now();
            let cpu0 = cpu_ms(child.id());
            loop {
                if let Some(_st) = child.try_wait().unwrap() {
                    println!("NOT REPRODUCED: the run terminates");
                    return 0;
                }
                if over_limit(child.id(), t0, cpu0, HANG_LIMIT_S) {
                    let _ = child.kill();
                    let _ = child.wait();
                    println!("REPRODUCED: poll() does not return ({} s of CPU time)", HANG_LIMIT_S);
                    println!("VIOLATION property={} replay={}", e.property, args[1]);
                    return 1;
                }
                std::thread::sleep(Duration::from_millis(200));
            }
        }
    }
    let r = run_scenario(&sc, verbose);
    match (&exp, r.violations.first()) {
        (Some(e), Some(_)) => {
            let same = r
                .violations
                .iter()
                .find(|v| v.property == e.property && v.oracle == e.oracle && v.sig == e.sig);
            match same {
                Some(v) => {
                    let exact = v.t_us == e.t_us && r.trace_hash == e.trace_hash;
                    println!(
                        "{}: {} / {} at {} us (trace {}): {}",
                        if exact { "REPRODUCED" } else { "REPRODUCED (same violation class, different trace)" },
                        v.oracle,
                        v.sig,
                        v.t_us,
                        r.trace_hash,
                        v.detail
                    );
                    println!("VIOLATION property={} replay={}", v.property, args[1]);
                    1
                }
                None => {
                    let v = &r.violations[0];
                    println!("DIFFERENT VIOLATION: {} / {}: {}", v.oracle, v.sig, v.detail);
                    println!("VIOLATION property={} replay={}", v.property, args[1]);
                    1
                }
            }
        }
        (None, Some(v)) => {
            println!("VIOLATION (no expectation recorded): {} / {}: {}", v.oracle, v.sig, v.detail);
            println!("VIOLATION property={} replay={}", v.property, args[1]);
            1
        }
        (_, None) => {
            println!("NOT REPRODUCED: the run satisfies the property (trace {})", r.trace_hash);
            0
        }
    }
}

// ------------------------------------------------------------------------------------------
// parallel search

enum Msg {
    Line(usize, String),
    Eof(usize),
}

struct Worker {
    child: Child,
    cur: Option<(u64, Instant, Option<u64>)>,
    done: bool,
    killed: bool,
    stride: u64,
    end: u64,
}

fn spawn_worker(id: usize, check: &str, tier: Tier, seed: u64, start: u64, stride: u64, end: u64, tx: &mpsc::Sender<Msg>) -> Worker {
    let exe = std::env::current_exe().unwrap();
    let mut child = Command::new(exe)
        .args(["worker", check, tier.name(), &seed.to_string(), &start.to_string(), &stride.to_string(), &end.to_string()])
        .stdout(Stdio::piped())
        .stderr(Stdio::inherit())
        .spawn()
        .expect("spawn worker");
    let out = child.stdout.take().unwrap();
    let tx = tx.clone();
    std::thread::spawn(move || {
        let rd = BufReader::new(out);
        for line in rd.lines() {
            match line {
                Ok(l) => {
                    if tx.send(Msg::Line(id, l)).is_err() {
                        return;
                    }
                }
                Err(_) => break,
            }
        }
        let _ = tx.send(Msg::Eof(id));
    });
    Worker {
        child,
        cur: None,
        done: false,
        killed: false,
        stride,
        end,
    }
}

pub struct Batch {
    pub results: Vec<Option<RunResult>>,
    pub hangs: Vec<u64>,
    pub harness_errors: Vec<String>,
    /// The search was cut short after repeated suspected hangs.
    pub aborted_early: bool,
}

pub fn run_batch(check: &str, tier: Tier, seed: u64, runs: u64, jobs: usize) -> Batch {
    let (tx, rx) = mpsc::channel::<Msg>();
    let jobs = jobs.max(1).min(runs.max(1) as usize);
    let mut workers: Vec<Worker> = Vec::new();
    for j in 0..jobs {
        workers.push(spawn_worker(j, check, tier, seed, j as u64, jobs as u64, runs, &tx));
    }
    let mut results: Vec<Option<RunResult>> = (0..runs).map(|_| None).collect();
    let mut suspects: Vec<u64> = Vec::new();
    let mut errors: Vec<String> = Vec::new();
    let mut open = workers.len();
    let mut aborted_early = false;
    while open > 0 {
        if suspects.len() >= 2 {
            // a systematic hang: stop searching, the first suspects are re-checked below
            aborted_early = true;
            for w in workers.iter_mut() {
                if !w.done {
                    let _ = w.child.kill();
                    w.killed = true;
                }
            }
            break;
        }
        match rx.recv_timeout(Duration::from_millis(500)) {
            Ok(Msg::Line(id, l)) => {
                if let Some(k) = l.strip_prefix("BEGIN ") {
                    workers[id].cur = Some((k.parse().unwrap(), Instant::now(), cpu_ms(workers[id].child.id())));
                } else if let Some(j) = l.strip_prefix("RESULT ") {
                    match serde_json::from_str::<RunResult>(j) {
                        Ok(r) => {
                            let k = r.k as usize;
                            workers[id].cur = None;
                            if k < results.len() {
                                results[k] = Some(r);
                            }
                        }
                        Err(e) => errors.push(format!("worker {id}: bad result line: {e}")),
                    }
                } else if l == "DONE" {
                    workers[id].done = true;
                }
            }
            Ok(Msg::Eof(id)) => {
                open -= 1;
                let _ = workers[id].child.wait();
                if !workers[id].done && !workers[id].killed {
                    errors.push(format!(
                        "worker {id} died{}",
                        workers[id].cur.map(|(k, _, _)| format!(" in run {k}")).unwrap_or_default()
                    ));
                }
            }
            Err(mpsc::RecvTimeoutError::Timeout) => {}
            Err(mpsc::RecvTimeoutError::Disconnected) => break,
        }
        // watchdog
        for id in 0..workers.len() {
            if let Some((k, t, cpu0)) = workers[id].cur {
                if !workers[id].killed && over_limit(workers[id].child.id(), t, cpu0, HANG_LIMIT_S) {
                    let _ = workers[id].child.kill();
                    workers[id].killed = true;
                    workers[id].cur = None;
                    suspects.push(k);
                    // replacement for the rest of this worker's indices
                    let (stride, end) = (workers[id].stride, workers[id].end);
                    if k + stride < end {
                        let nid = workers.len();
                        workers.push(spawn_worker(nid, check, tier, seed, k + stride, stride, end, &tx));
                        open += 1;
                    }
                }
            }
        }
    }
    for w in workers.iter_mut() {
        let _ = w.child.wait();
    }
    // re-check suspected hangs alone with a longer limit
    let mut hangs = Vec::new();
    suspects.sort();
    for k in suspects.into_iter().take(1) {
        let exe = std::env::current_exe().unwrap();
        let mut child = Command::new(exe)
            .args(["worker", check, tier.name(), &seed.to_string(), &k.to_string(), "1", &(k + 1).to_string()])
            .stdout(Stdio::piped())
            .spawn()
            .expect("spawn recheck");
        let t0 = Instant::now();
        let cpu0 = cpu_ms(child.id());
        let mut finished = false;
        while !over_limit(child.id(), t0, cpu0, HANG_RECHECK_S) {
            if child.try_wait().unwrap().is_some() {
                finished = true;
                break;
            }
            std::thread::sleep(Duration::from_millis(100));
        }
        if finished {
            let mut s = String::new();
            use std::io::Read;
            let _ = child.stdout.take().unwrap().read_to_string(&mut s);
            for l in s.lines() {
                if let Some(j) = l.strip_prefix("RESULT ") {
                    if let Ok(r) = serde_json::from_str::<RunResult>(j) {
                        results[k as usize] = Some(r);
                    }
                }
            }
            if results[k as usize].is_none() {
                errors.push(format!("run {k}: recheck produced no result"));
            }
        } else {
            let _ = child.kill();
            let _ = child.wait();
            hangs.push(k);
        }
    }
    if !aborted_early {
        for (k, r) in results.iter().enumerate() {
            if r.is_none() && !hangs.contains(&(k as u64)) {
                errors.push(format!("run {k}: no result"));
            }
        }
    } else if hangs.is_empty() {
        errors.push("runs exceeded the wall-clock limit in the batch but finished when re-run alone (machine overloaded?)".to_string());
    }
    Batch {
        results,
        hangs,
        harness_errors: errors,
        aborted_early,
    }
}

// ------------------------------------------------------------------------------------------
// known findings

#[derive(Deserialize, Clone, Debug)]
pub struct KnownMatch {
    pub oracle: String,
    pub sig: String,
    #[serde(default)]
    pub detail_contains: Option<String>,
    #[serde(default)]
    pub requires_counter: Option<String>,
}

#[derive(Deserialize, Clone, Debug)]
pub struct KnownFinding {
    pub property: String,
    pub id: String,
    pub status: String,
    #[serde(default)]
    pub commit: Option<String>,
    #[serde(rename = "match")]
    pub m: KnownMatch,
    pub text: String,
}

#[derive(Deserialize, Clone, Debug, Default)]
pub struct KnownFile {
    pub findings: Vec<KnownFinding>,
}

fn load_known(path: &str) -> KnownFile {
    match std::fs::read_to_string(path) {
        Ok(t) => serde_json::from_str(&t).unwrap_or_else(|e| {
            eprintln!("HARNESS ERROR: cannot parse {path}: {e}");
            std::process::exit(2)
        }),
        Err(_) => KnownFile::default(),
    }
}

fn known_match<'a>(kf: &'a KnownFile, v: &Violation, r: &RunResult) -> Option<&'a KnownFinding> {
    kf.findings.iter().find(|f| {
        f.status == "known"
            && f.property == v.property
            && f.m.oracle == v.oracle
            && v.sig.contains(&f.m.sig)
            && f.m.detail_contains.as_ref().map(|d| v.detail.contains(d)).unwrap_or(true)
            && f.m.requires_counter.as_ref().map(|c| r.counters.get(c).copied().unwrap_or(0) > 0).unwrap_or(true)
    })
}

// ------------------------------------------------------------------------------------------

fn default_seed() -> u64 {
    std::env::var("VERIF_SEED").ok().and_then(|s| s.parse().ok()).unwrap_or(1)
}

fn cmd_check(args: &[String]) -> i32 {
    let check = args[1].clone();
    let tier = parse_tier(&flag(args, "--tier").or_else(|| std::env::var("VERIF_TIER").ok()).unwrap_or_else(|| "quick".into()));
    let seed: u64 = flag(args, "--seed").and_then(|s| s.parse().ok()).unwrap_or_else(default_seed);
    let runs: u64 = flag(args, "--runs").and_then(|s| s.parse().ok()).unwrap_or_else(|| checks::default_runs(&check, tier));
    let jobs: usize = flag(args, "--jobs")
        .and_then(|s| s.parse().ok())
        .unwrap_or_else(|| std::thread::available_parallelism().map(|n| n.get()).unwrap_or(4));
    let out_dir = flag(args, "--out").unwrap_or_else(|| ".".into());
    // A second pass of the same check with another build of profirust (this binary *is* that
    // build): a share of the runs, results merged into the evidence file of the first pass.
    let variant: Option<String> = flag(args, "--variant");
    let runs = match flag(args, "--runs-div").and_then(|s| s.parse::<u64>().ok()) {
        Some(d) if d > 0 => (runs / d).max(1),
        _ => runs,
    };
    let vtag = variant.as_ref().map(|v| format!("-{v}")).unwrap_or_default();
    let known = load_known(&format!("{out_dir}/known_findings.json"));
    println!("pbsim check {check}{} tier={} seed={seed} runs={runs} jobs={jobs}", variant.as_ref().map(|v| format!(" [{v} build]")).unwrap_or_default(), tier.name());
    let t0 = Instant::now();
    let batch = run_batch(&check, tier, seed, runs, jobs);
    let wall_search = t0.elapsed().as_secs_f64();

    if !batch.harness_errors.is_empty() {
        for e in &batch.harness_errors {
            eprintln!("HARNESS ERROR: {e}");
        }
        return 2;
    }

    // collect violations by class, lowest run index first
    let mut classes: BTreeMap<(String, String), (u64, Violation)> = BTreeMap::new();
    let mut n_violating_runs = 0u64;
    for r in batch.results.iter().flatten() {
        if !r.violations.is_empty() {
            n_violating_runs += 1;
        }
        for v in &r.violations {
            classes.entry((v.oracle.clone(), v.sig.clone())).or_insert((r.k, v.clone()));
        }
    }
    let mut exit = 0;
    let mut known_hit: BTreeSet<String> = BTreeSet::new();
    let mut reported = Vec::new();
    let _ = std::fs::create_dir_all(format!("{out_dir}/replays"));
    let mut n_reported = 0;
    for ((oracle, sig), (k, v)) in classes.iter() {
        let r = batch.results[*k as usize].as_ref().unwrap();
        if let Some(f) = known_match(&known, v, r) {
            if known_hit.insert(f.id.clone()) {
                println!("KNOWN-FINDING: property={} {} [{}]", f.property, f.text, f.id);
            }
            continue;
        }
        exit = 1;
        if n_reported >= 4 {
            println!("(further violation class not minimised: {oracle} / {sig} in run {k}: {})", v.detail);
            continue;
        }
        n_reported += 1;
        let mut sc = generate(&check, tier, seed, *k);
        sc.expect = Some(Expect {
            property: v.property.clone(),
            oracle: v.oracle.clone(),
            sig: v.sig.clone(),
            t_us: v.t_us,
            trace_hash: r.trace_hash.clone(),
            detail: v.detail.clone(),
        });
        sc.build = variant.clone();
        let tag = format!("{}-{}-{}{}", check, seed, k, vtag);
        let raw = format!("{out_dir}/replays/{tag}.raw.json");
        let min = format!("{out_dir}/replays/{tag}.json");
        std::fs::write(&raw, serde_json::to_string_pretty(&sc).unwrap()).unwrap();
        // PBSIM_FAST=1 (used by tools/seeded_matrix.sh): report the raw scenario, no minimisation
        if std::env::var("PBSIM_FAST").map(|v| !v.is_empty()).unwrap_or(false) {
            let file = format!("{out_dir}/replays/{tag}.json");
            let _ = std::fs::rename(&raw, &file);
            println!("run {k}: {oracle} / {sig}: {}", v.detail);
            println!("VIOLATION property={} replay={}", v.property, std::fs::canonicalize(&file).map(|p| p.display().to_string()).unwrap_or(file.clone()));
            reported.push(json!({"run": k, "oracle": oracle, "sig": sig, "detail": v.detail, "replay": file, "minimised": false}));
            continue;
        }
        // minimise in a child process (a candidate may hang or crash)
        let exe = std::env::current_exe().unwrap();
        let mut child = Command::new(&exe)
            .args(["shrink", &raw, &min, "400", "120"])
            .stdout(Stdio::null())
            .stderr(Stdio::null())
            .spawn()
            .expect("spawn shrink");
        let ts = Instant::now();
        let mut shrunk = false;
        loop {
            if let Some(st) = child.try_wait().unwrap() {
                shrunk = st.success();
                break;
            }
            if ts.elapsed().as_secs() > 200 {
                let _ = child.kill();
                let _ = child.wait();
                break;
            }
            std::thread::sleep(Duration::from_millis(100));
        }
        let file = if shrunk {
            let _ = std::fs::remove_file(&raw);
            min
        } else {
            let _ = std::fs::rename(&raw, &min);
            min
        };
        // replay in a fresh process
        let rp = Command::new(&exe).args(["replay", &file]).output().expect("spawn replay");
        let rp_out = String::from_utf8_lossy(&rp.stdout).to_string();
        let reproduced = rp.status.code() == Some(1) && rp_out.contains("REPRODUCED");
        println!("run {k}: {oracle} / {sig}: {}", v.detail);
        println!(
            "  minimised={} replay-in-fresh-process={}",
            shrunk,
            if reproduced { "reproduced" } else { "NOT reproduced" }
        );
        println!("VIOLATION property={} replay={}", v.property, std::fs::canonicalize(&file).map(|p| p.display().to_string()).unwrap_or(file.clone()));
        reported.push(json!({"run": k, "oracle": oracle, "sig": sig, "detail": v.detail, "replay": file, "minimised": shrunk, "replay_reproduced": reproduced}));
    }
    for k in &batch.hangs {
        let v = Violation {
            property: check.clone(),
            oracle: "total.hang".into(),
            sig: "hang".into(),
            t_us: 0,
            station: None,
            detail: format!("run {k} did not finish within {HANG_RECHECK_S} s of CPU time (typical: milliseconds)"),
        };
        let dummy = RunResult::default();
        if let Some(f) = known_match(&known, &v, &dummy) {
            if known_hit.insert(f.id.clone()) {
                println!("KNOWN-FINDING: property={} {} [{}]", f.property, f.text, f.id);
            }
            continue;
        }
        // a hang is a violation of properties that promise termination; for the others the run is
        // reported as inconclusive and the check fails as a harness error
        if !checks::hang_is_violation(&check) {
            eprintln!("HARNESS ERROR: run {k} hangs (a C05/C14 matter); check {check} cannot decide");
            return 2;
        }
        exit = 1;
        let mut sc = generate(&check, tier, seed, *k);
        sc.expect = Some(Expect {
            property: check.clone(),
            oracle: v.oracle.clone(),
            sig: v.sig.clone(),
            t_us: 0,
            trace_hash: String::new(),
            detail: v.detail.clone(),
        });
        sc.build = variant.clone();
        let file = format!("{out_dir}/replays/{}-{}-{}{}.json", check, seed, k, vtag);
        std::fs::write(&file, serde_json::to_string_pretty(&sc).unwrap()).unwrap();
        println!("run {k}: {}", v.detail);
        println!("VIOLATION property={} replay={}", check, std::fs::canonicalize(&file).map(|p| p.display().to_string()).unwrap_or(file.clone()));
        reported.push(json!({"run": k, "oracle": "total.hang", "sig": "hang", "detail": v.detail, "replay": file}));
    }

    let wall = t0.elapsed().as_secs_f64();
    let mut ev = evidence(&check, tier, seed, &batch, wall_search, wall, n_violating_runs, &reported, &known_hit);
    let _ = std::fs::create_dir_all(format!("{out_dir}/evidence"));
    let path = format!("{out_dir}/evidence/{check}.json");
    if let Some(v) = &variant {
        // merge into the evidence of the first pass
        let base = std::fs::read_to_string(&path).ok().and_then(|s| serde_json::from_str::<serde_json::Value>(&s).ok());
        let Some(mut base) = base else {
            eprintln!("HARNESS ERROR: --variant needs the evidence of the first pass at {path}");
            return 2;
        };
        let c = &ev["coverage"];
        let part = json!({
            "what": "the same generator and oracles, profirust compiled without debug assertions and overflow checks (what users ship); run indices 0..evaluations of the same base seed",
            "evaluations": c["evaluations"], "distinct_nontrivial": c["distinct_nontrivial"], "nontrivial_runs": c["nontrivial_runs"],
            "simulated_seconds": c["simulated_seconds"], "polls": c["polls"], "transmissions": c["transmissions"],
            "faults_fired": c["faults_fired"], "rare_branch_probes": c["rare_branch_probes"],
            "aborted_runs": c["aborted_runs"], "abort_reasons": c["abort_reasons"], "hangs": c["hangs"],
            "violating_runs": c["violating_runs"], "reported": c["reported"], "known_findings_hit": c["known_findings_hit"],
            "wall_s": ev["wall_s"],
        });
        base["coverage"]["build_variants"][v.as_str()] = part;
        base["violations"] = json!(base["violations"].as_i64().unwrap_or(0) + ev["violations"].as_i64().unwrap_or(0));
        base["wall_s"] = json!(base["wall_s"].as_f64().unwrap_or(0.0) + ev["wall_s"].as_f64().unwrap_or(0.0));
        std::mem::swap(&mut ev, &mut base);
        // the summary line below speaks about this pass
        ev["coverage"]["_pass"] = base["coverage"].clone();
    }
    if let Err(e) = std::fs::write(&path, serde_json::to_string_pretty(&ev).unwrap()) {
        eprintln!("HARNESS ERROR: cannot write {path}: {e}");
        return 2;
    }
    let pass_cov = ev["coverage"].as_object_mut().and_then(|o| o.remove("_pass"));
    if variant.is_some() {
        if let Err(e) = std::fs::write(&path, serde_json::to_string_pretty(&ev).unwrap()) {
            eprintln!("HARNESS ERROR: cannot write {path}: {e}");
            return 2;
        }
    }
    let cov = pass_cov.as_ref().unwrap_or(&ev["coverage"]);
    println!(
        "{check}{vtag}: {} runs, {} distinct non-trivial, {:.1} simulated s, {} polls, {} violating runs, {:.1} s wall -> {}",
        cov["evaluations"],
        cov["distinct_nontrivial"],
        cov["simulated_seconds"].as_f64().unwrap_or(0.0),
        cov["polls"],
        n_violating_runs,
        wall,
        if exit == 0 { "PASS" } else { "FAIL" }
    );
    exit
}

#[allow(clippy::too_many_arguments)]
fn evidence(
    check: &str,
    tier: Tier,
    seed: u64,
    batch: &Batch,
    wall_search: f64,
    wall: f64,
    n_violating_runs: u64,
    reported: &[serde_json::Value],
    known_hit: &BTreeSet<String>,
) -> serde_json::Value {
    let mut counters: BTreeMap<String, u64> = BTreeMap::new();
    let mut maxf: BTreeMap<String, f64> = BTreeMap::new();
    let mut fps: BTreeSet<String> = BTreeSet::new();
    let mut all_fps: BTreeSet<String> = BTreeSet::new();
    let (mut evals, mut sim_us, mut polls, mut txs, mut aborted, mut nontriv) = (0u64, 0u64, 0u64, 0u64, 0u64, 0u64);
    let mut abort_reasons: BTreeMap<String, u64> = BTreeMap::new();
    for r in batch.results.iter().flatten() {
        evals += 1;
        sim_us += r.sim_us;
        polls += r.polls;
        txs += r.txs;
        for (k, v) in &r.counters {
            *counters.entry(k.clone()).or_insert(0) += v;
        }
        for (k, v) in &r.maxf {
            let e = maxf.entry(k.clone()).or_insert(0.0);
            if *v > *e {
                *e = *v;
            }
        }
        all_fps.insert(r.fingerprint.clone());
        if r.nontrivial {
            nontriv += 1;
            fps.insert(r.fingerprint.clone());
        }
        if let Some(a) = &r.aborted {
            aborted += 1;
            *abort_reasons.entry(a.clone()).or_insert(0) += 1;
        }
    }
    let faults: BTreeMap<String, u64> = counters
        .iter()
        .filter(|(k, _)| k.starts_with("fault.") || k.starts_with("user."))
        .map(|(k, v)| (k.clone(), *v))
        .collect();
    let buggify: BTreeMap<String, u64> = counters.iter().filter(|(k, _)| k.starts_with("buggify.")).map(|(k, v)| (k.clone(), *v)).collect();
    let probes: BTreeMap<String, u64> = counters.iter().filter(|(k, _)| k.starts_with("probe.")).map(|(k, v)| (k.clone(), *v)).collect();
    let zero_probes: Vec<String> = checks::probe_names(check)
        .iter()
        .filter(|p| probes.get(**p).copied().unwrap_or(0) == 0)
        .map(|p| p.to_string())
        .collect();
    let other: BTreeMap<String, u64> = counters
        .iter()
        .filter(|(k, _)| !(k.starts_with("fault.") || k.starts_with("user.") || k.starts_with("probe.") || k.starts_with("buggify.")))
        .map(|(k, v)| (k.clone(), *v))
        .collect();
    // samples: the first scenarios of the batch, written out
    let mut samples = Vec::new();
    for k in 0..batch.results.len().min(2) as u64 {
        let sc = generate(check, tier, seed, k);
        samples.push(json!({"run": k, "scenario": sc, "result": batch.results[k as usize].as_ref().map(|r| json!({
            "trace_hash": r.trace_hash, "sim_us": r.sim_us, "polls": r.polls, "transmissions": r.txs, "nontrivial": r.nontrivial, "violations": r.violations.len()}))}));
    }
    let hours = (wall_search / 3600.0).max(1e-9);
    json!({
        "property_id": check,
        "tier": tier.name(),
        "seed": seed,
        "level": checks::level_of(check),
        "coverage": {
            "evaluations": evals,
            "distinct_nontrivial": fps.len(),
            "nontrivial_runs": nontriv,
            "distinct_fingerprints_all_runs": all_fps.len(),
            "rule": checks::rule_of(check),
            "samples": samples,
            "simulated_seconds": sim_us as f64 / 1e6,
            "polls": polls,
            "transmissions": txs,
            "runs_per_hour": (evals as f64 / hours).round(),
            "simulated_seconds_per_hour": (sim_us as f64 / 1e6 / hours).round(),
            "faults_fired": faults,
            "buggify_sites_fired": buggify,
            "rare_branch_probes": probes,
            "probes_stuck_at_zero": zero_probes,
            "liveness_and_timing_max_observed_over_allowed": maxf,
            "counters": other,
            "aborted_runs": aborted,
            "abort_reasons": abort_reasons,
            "hangs": batch.hangs,
            "violating_runs": n_violating_runs,
            "reported": reported,
            "known_findings_hit": known_hit.iter().collect::<Vec<_>>(),
            "components": checks::components(check),
        },
        "assumptions": checks::assumptions(check),
        "wall_s": wall,
        "violations": reported.len(),
    })
}

// ------------------------------------------------------------------------------------------

/// Determinism self-test: the same run indices in separate processes with 1, 3 and 8 workers must
/// give identical trace hashes, violations and counters.
fn cmd_determinism(args: &[String]) -> i32 {
    let check = &args[1];
    let tier = parse_tier(&args[2]);
    let seed: u64 = args[3].parse().unwrap();
    let runs: u64 = args[4].parse().unwrap();
    let mut base: Option<Vec<String>> = None;
    for jobs in [16usize, 3, 1, 8] {
        let b = run_batch(check, tier, seed, runs, jobs);
        if !b.harness_errors.is_empty() || !b.hangs.is_empty() {
            eprintln!("HARNESS ERROR: {:?} hangs {:?}", b.harness_errors, b.hangs);
            return 2;
        }
        let sig: Vec<String> = b
            .results
            .iter()
            .flatten()
            .map(|r| {
                format!(
                    "{} {} {} {} {:?} {:?}",
                    r.k,
                    r.trace_hash,
                    r.polls,
                    r.sim_us,
                    r.violations.iter().map(|v| (&v.oracle, &v.sig, v.t_us)).collect::<Vec<_>>(),
                    r.counters
                )
            })
            .collect();
        match &base {
            None => base = Some(sig),
            Some(b0) => {
                for (a, b) in b0.iter().zip(sig.iter()) {
                    if a != b {
                        println!("DIVERGENCE with {jobs} workers:\n  {a}\n  {b}");
                        return 1;
                    }
                }
            }
        }
        println!("determinism: {runs} runs of {check} with {jobs} workers ok");
    }
    0
}
