//! pbsim — deterministic simulation with fault injection for Rahix/profirust (see /verif/DESIGN.md).

mod adversary;
mod apps;
mod bus;
mod checks;
mod driver;
mod gen;
mod logger;
mod monitors;
mod phy;
mod rng;
mod rx;
mod scenario;
mod shrink;
mod slave;
mod wire;
mod world;

fn usage() -> ! {
    eprintln!(
        "usage:
  pbsim check <Cxx> [--tier quick|thorough] [--seed N] [--runs N] [--jobs N] [--out DIR]
  pbsim worker <Cxx> <tier> <seed> <start> <stride> <end>
  pbsim replay <file> [-v]
  pbsim run <Cxx> <tier> <seed> <k> [-v] [--log]
  pbsim gen <Cxx> <tier> <seed> <k>
  pbsim determinism <Cxx> <tier> <seed> <runs>"
    );
    std::process::exit(2);
}

fn main() {
    world::install_panic_hook();
    logger::install();
    let args: Vec<String> = std::env::args().collect();
    if args.len() < 2 {
        usage();
    }
    let r = std::panic::catch_unwind(|| driver::dispatch(&args[1..]));
    match r {
        Ok(code) => std::process::exit(code),
        Err(_) => {
            let p = world::LAST_PANIC.with(|p| p.borrow_mut().take());
            eprintln!(
                "HARNESS ERROR: internal panic {}",
                p.map(|p| format!("at {}: {}", p.loc, p.msg)).unwrap_or_default()
            );
            std::process::exit(2);
        }
    }
}
