//! The adversary node (DESIGN §2.7 engine *adv*): plays predecessor, successor, stranger,
//! invalid addresses and the station's own address; answers or ignores GAP polls and token
//! passes; keeps silent for sub-slot / slot / time-out lengths; sends well-formed and damaged
//! telegrams.  Semi-cooperative: with probability `coop_pm` it follows the protocol so that deep
//! states are reached.  A stub, driven by its own PRNG stream.

use crate::bus::{NodeId, BIT};
use crate::rng::Rng;
use crate::scenario::{AdvCfg, WorldCfg};
use crate::wire::{self, Frame};
use crate::world::World;

pub enum AdvAction {
    SendAt { t: u64, bytes: Vec<u8> },
    WakeAt { t: u64, token: u64 },
}

#[derive(Clone, Debug)]
enum Pending {
    None,
    Send(Vec<u8>),
    /// Holding the token as `persona`; `left` more actions before passing it on.
    Hold { persona: u8, left: u8 },
    /// Passed the token to the target as `persona`; waiting to see whether it is taken.
    Passed { persona: u8, tries: u8 },
    /// After a token between two personas was thrown into the station's GAP-poll wait: offer the
    /// token to the station once as the same sender, then watch.
    OfferOnce { persona: u8 },
    Spont,
}

pub struct Adversary {
    pub cfg: AdvCfg,
    pub node: NodeId,
    pub rng: Rng,
    epoch: u64,
    pending: Pending,
    target: u8,
    slot_bits: u64,
    hsa: u8,
    script_pos: usize,
    pub sent: u64,
    pub coop_actions: u64,
    pub deviations: u64,
    until: u64,
    interject: Option<u8>,
    pub interjections: u64,
    pub single_offers: u64,
}

impl Adversary {
    pub fn new(cfg: &AdvCfg, node: NodeId, seed: u64, w: &WorldCfg) -> Self {
        let st = w.stations.first();
        Adversary {
            cfg: cfg.clone(),
            node,
            rng: Rng::new(seed),
            epoch: 0,
            pending: Pending::Spont,
            target: st.map(|s| s.addr).unwrap_or(1),
            slot_bits: st.map(|s| u64::from(s.slot_bits)).unwrap_or(100),
            hsa: st.map(|s| s.hsa).unwrap_or(126),
            script_pos: 0,
            sent: 0,
            coop_actions: 0,
            deviations: 0,
            until: cfg.until_us * w.baud,
            interject: None,
            interjections: 0,
            single_offers: 0,
        }
    }

    fn persona(&mut self) -> u8 {
        if self.cfg.addrs.is_empty() {
            return 0;
        }
        *self.rng.pick(&self.cfg.addrs)
    }

    fn any_addr(&mut self) -> u8 {
        match self.rng.below(10) {
            0 => self.target,
            1 => 126 + self.rng.below(2) as u8,
            2 => self.rng.below(128) as u8,
            3 => self.target.wrapping_add(1) % 126,
            4 => self.target.wrapping_sub(1).min(125),
            5 => self.hsa.saturating_sub(1),
            _ => self.persona(),
        }
    }

    /// A random telegram from the adversarial repertoire.
    pub fn random_telegram(&mut self) -> Vec<u8> {
        let ts = self.target;
        match self.rng.below(16) {
            0 => wire::encode(&Frame::Token { da: ts, sa: self.any_addr() }),
            1 => {
                let a = self.any_addr();
                let b = self.any_addr();
                wire::encode(&Frame::Token { da: a, sa: b })
            }
            2 => wire::encode(&Frame::Token { da: self.any_addr(), sa: ts }),
            3 => {
                let sa = self.any_addr();
                status_request(ts, sa)
            }
            4 => {
                let sa = self.any_addr();
                let da = self.any_addr();
                status_request(da, sa)
            }
            5 => {
                let sa = self.any_addr();
                let state = self.rng.below(4) as u8;
                let status = *self.rng.pick(&[0u8, 0, 0, 1, 2, 3, 8, 9, 10, 12, 13]);
                status_reply(ts, sa, state, status)
            }
            6 => vec![wire::SC],
            7 => {
                // data reply to the target
                let sa = self.any_addr();
                let n = *self.rng.pick(&[0usize, 1, 5, 6, 8, 9, 32]);
                let dsap = if self.rng.chance(1, 2) { Some(62) } else { None };
                let ssap = if dsap.is_some() { Some(*self.rng.pick(&[60u8, 61, 62, 33])) } else { None };
                let status = *self.rng.pick(&[0u8, 8, 10, 3, 1, 2, 9, 12, 13]);
                let pdu = self.rng.bytes(n);
                wire::encode(&Frame::Data { da: ts, sa, dsap, ssap, fc: wire::fc_response(0, status), pdu })
            }
            8 => {
                // request to the target (other than status)
                let sa = self.any_addr();
                let req = *self.rng.pick(&[3u8, 4, 5, 6, 7, 12, 13, 14, 15, 0, 0x80]);
                let n = self.rng.below(12) as usize;
                let pdu = self.rng.bytes(n);
                let fcv = self.rng.chance(1, 2);
                let fcb = self.rng.chance(1, 2);
                wire::encode(&Frame::Data { da: ts, sa, dsap: None, ssap: None, fc: wire::fc_request(fcv, fcb, req), pdu })
            }
            9 => {
                let n = self.rng.range(1, 12) as usize;
                self.rng.bytes(n)
            }
            10 => {
                // damaged frame: valid telegram with one byte changed
                let mut b = self.random_valid();
                let i = self.rng.below(b.len() as u64) as usize;
                b[i] ^= 1 << self.rng.below(8);
                b
            }
            11 => {
                // truncated frame
                let mut b = self.random_valid();
                let k = self.rng.below(b.len() as u64) as usize;
                b.truncate(k.max(1));
                b
            }
            12 => {
                // two telegrams back to back
                let mut b = self.random_valid();
                b.extend(self.random_valid());
                b
            }
            13 => {
                // status request followed immediately by a token to the target
                let sa = self.persona();
                let mut b = status_request(ts, sa);
                b.extend(wire::encode(&Frame::Token { da: ts, sa }));
                b
            }
            14 => {
                // token to the target followed by something else
                let sa = self.persona();
                let mut b = wire::encode(&Frame::Token { da: ts, sa });
                b.extend(self.random_valid());
                b
            }
            _ => {
                let sa = self.persona();
                status_reply(ts, sa, 2, 0)
            }
        }
    }

    fn random_valid(&mut self) -> Vec<u8> {
        loop {
            let b = match self.rng.below(8) {
                0..=2 => {
                    let (a, b) = (self.any_addr(), self.any_addr());
                    wire::encode(&Frame::Token { da: a, sa: b })
                }
                3 => vec![wire::SC],
                4 => {
                    let sa = self.any_addr();
                    status_request(self.target, sa)
                }
                5 => {
                    let sa = self.any_addr();
                    let st = self.rng.below(4) as u8;
                    status_reply(self.target, sa, st, 0)
                }
                _ => {
                    let sa = self.any_addr();
                    let n = self.rng.below(20) as usize;
                    let pdu = self.rng.bytes(n);
                    wire::encode(&Frame::Data { da: self.target, sa, dsap: None, ssap: None, fc: wire::fc_response(0, 8), pdu })
                }
            };
            if !b.is_empty() {
                return b;
            }
        }
    }

    fn coop(&mut self) -> bool {
        let c = self.rng.chance(u64::from(self.cfg.coop_pm), 1000);
        if c {
            self.coop_actions += 1;
        } else {
            self.deviations += 1;
        }
        c
    }

    fn schedule(&mut self, w: &World, after_bits: u64, p: Pending) -> Vec<AdvAction> {
        self.pending = p;
        vec![AdvAction::WakeAt { t: w.now + after_bits * BIT, token: self.epoch }]
    }

    fn spont_delay(&mut self) -> u64 {
        let g = u64::from(self.cfg.gap_bits.max(40));
        match self.rng.below(6) {
            0 => self.rng.range(12, 40),
            1 => self.slot_bits + self.rng.range(0, 20),
            2 => self.slot_bits * self.rng.range(2, 12),
            _ => self.rng.range(34, 2 * g),
        }
    }

    pub fn on_tx_end(&mut self, w: &World, _idx: usize, heard: Option<&Frame>) -> Vec<AdvAction> {
        self.epoch += 1;
        if w.now > self.until {
            self.pending = Pending::None;
            return vec![];
        }
        // explicit script has priority
        if self.script_pos < self.cfg.script.len() {
            let idle = u64::from(self.cfg.script[self.script_pos].idle_bits);
            let bytes = self.cfg.script[self.script_pos].bytes.clone();
            return self.schedule(w, idle, Pending::Send(bytes));
        }
        let ts = self.target;
        if let Some(f) = heard {
            match f {
                // GAP poll / status request to one of my personas
                Frame::Data { da, sa, .. } if f.is_fdl_status_request() && self.cfg.addrs.contains(da) && *sa == ts => {
                    let persona = *da;
                    if self.coop() {
                        let state = if self.cfg.partner { *self.rng.pick(&[2u8, 2, 2, 3]) } else { *self.rng.pick(&[0u8, 1, 2, 3]) };
                        let d = self.rng.range(11, (self.slot_bits / 2).max(12));
                        return self.schedule(w, d, Pending::Send(status_reply(ts, persona, state, 0)));
                    } else {
                        return match self.rng.below(6) {
                            0 => self.schedule(w, self.slot_bits * 3, Pending::Spont),
                            1 => {
                                let d = self.slot_bits + self.rng.range(1, 50);
                                self.schedule(w, d, Pending::Send(status_reply(ts, persona, 2, 0)))
                            }
                            2 => {
                                let other = self.any_addr();
                                self.schedule(w, 15, Pending::Send(status_reply(ts, other, 2, 0)))
                            }
                            3 => self.schedule(w, 15, Pending::Send(vec![wire::SC])),
                            4 => {
                                let st = self.rng.below(4) as u8;
                                let status = *self.rng.pick(&[1u8, 2, 3, 8, 9, 10, 12, 13]);
                                self.schedule(w, 15, Pending::Send(status_reply(ts, persona, st, status)))
                            }
                            _ => {
                                let b = self.random_telegram();
                                self.schedule(w, 12, Pending::Send(b))
                            }
                        };
                    }
                }
                // a GAP poll of the station (to anybody): now and then a token between two other
                // stations is thrown into the wait, and its sender then offers the station the
                // token exactly once
                Frame::Data { sa, .. } if f.is_fdl_status_request() && *sa == ts && self.cfg.addrs.len() >= 2 && self.rng.chance(1, 10) => {
                    let p = self.persona();
                    let q = self.persona();
                    self.deviations += 1;
                    self.interject = Some(p);
                    self.interjections += 1;
                    let d = self.rng.range(12, (self.slot_bits / 2).max(13));
                    return self.schedule(w, d, Pending::Send(wire::encode(&Frame::Token { da: q, sa: p })));
                }
                // token for one of my personas
                Frame::Token { da, sa } if self.cfg.addrs.contains(da) && *sa == ts => {
                    let persona = *da;
                    if self.coop() {
                        let left = self.rng.below(3) as u8;
                        let d = self.rng.range(34, (self.slot_bits * 3 / 4).max(35));
                        return self.schedule(w, d, Pending::Hold { persona, left });
                    } else {
                        return match self.rng.below(4) {
                            // ignore: the station retries and finally drops us
                            0 | 1 => self.schedule(w, self.slot_bits * 5, Pending::Spont),
                            // take it too late
                            2 => {
                                let d = self.slot_bits + self.rng.range(1, 40);
                                self.schedule(w, d, Pending::Hold { persona, left: 0 })
                            }
                            _ => {
                                let b = self.random_telegram();
                                self.schedule(w, 34, Pending::Send(b))
                            }
                        };
                    }
                }
                _ => {}
            }
        }
        // continue an ongoing role after our own transmission or foreign traffic
        match self.pending.clone() {
            Pending::Hold { persona, left } => {
                let d = self.rng.range(34, 80);
                self.schedule(w, d, Pending::Hold { persona, left })
            }
            Pending::OfferOnce { persona } => {
                let d = self.rng.range(34, self.slot_bits * 2);
                self.schedule(w, d, Pending::OfferOnce { persona })
            }
            Pending::Passed { persona, tries } => {
                if heard.is_some() {
                    // somebody transmits: the token was taken (or the bus is busy anyway)
                    let d = self.spont_delay();
                    self.schedule(w, d, Pending::Spont)
                } else {
                    let d = self.slot_bits + self.rng.range(2, 30);
                    self.schedule(w, d, Pending::Passed { persona, tries })
                }
            }
            _ => {
                let d = self.spont_delay();
                self.schedule(w, d, Pending::Spont)
            }
        }
    }

    pub fn wake(&mut self, w: &World, token: u64) -> Vec<AdvAction> {
        if w.now > self.until {
            return vec![];
        }
        if token == 0 && self.epoch == 0 {
            // initial wake
            if self.script_pos < self.cfg.script.len() {
                let idle = u64::from(self.cfg.script[0].idle_bits);
                let bytes = self.cfg.script[0].bytes.clone();
                return self.schedule(w, idle, Pending::Send(bytes));
            }
            let d = self.spont_delay() * 4;
            return self.schedule(w, d, Pending::Spont);
        }
        if token != self.epoch {
            return vec![];
        }
        let ts = self.target;
        let now = w.now;
        let send = |s: &mut Self, bytes: Vec<u8>| -> Vec<AdvAction> {
            s.sent += 1;
            vec![AdvAction::SendAt { t: now, bytes }]
        };
        match std::mem::replace(&mut self.pending, Pending::None) {
            Pending::None => vec![],
            Pending::Send(bytes) => {
                if self.script_pos < self.cfg.script.len() {
                    self.script_pos += 1;
                }
                self.pending = match self.interject.take() {
                    Some(persona) => Pending::OfferOnce { persona },
                    None => Pending::Spont,
                };
                send(self, bytes)
            }
            Pending::OfferOnce { persona } => {
                // one offer, no repetition: a station that takes it accepts a first offer
                self.pending = Pending::Passed { persona, tries: 3 };
                self.single_offers += 1;
                send(self, wire::encode(&Frame::Token { da: ts, sa: persona }))
            }
            Pending::Hold { persona, left } => {
                if left > 0 {
                    self.pending = Pending::Hold { persona, left: left - 1 };
                    let bytes = match self.rng.below(4) {
                        0 => status_request(ts, persona),
                        1 => {
                            let da = self.any_addr();
                            status_request(da, persona)
                        }
                        2 => {
                            let pdu = self.rng.bytes(3);
                            wire::encode(&Frame::Data { da: ts, sa: persona, dsap: None, ssap: None, fc: wire::fc_request(false, false, 6), pdu })
                        }
                        _ => {
                            // pass the token among personas
                            let other = self.persona();
                            self.pending = Pending::Hold { persona: other, left: left - 1 };
                            wire::encode(&Frame::Token { da: other, sa: persona })
                        }
                    };
                    send(self, bytes)
                } else {
                    let da = if self.coop() { ts } else { self.any_addr() };
                    self.pending = Pending::Passed { persona, tries: 1 };
                    send(self, wire::encode(&Frame::Token { da, sa: persona }))
                }
            }
            Pending::Passed { persona, tries } => {
                // nothing heard for a slot time: retry like a conforming station (or give up)
                if tries < 3 && self.coop() {
                    self.pending = Pending::Passed { persona, tries: tries + 1 };
                    send(self, wire::encode(&Frame::Token { da: ts, sa: persona }))
                } else {
                    let d = self.spont_delay();
                    self.schedule(w, d, Pending::Spont)
                }
            }
            Pending::Spont => {
                self.pending = Pending::Spont;
                let b = self.random_telegram();
                send(self, b)
            }
        }
    }
}

pub fn status_request(da: u8, sa: u8) -> Vec<u8> {
    wire::encode(&Frame::Data {
        da,
        sa,
        dsap: None,
        ssap: None,
        fc: wire::fc_request(false, false, wire::REQ_FDL_STATUS),
        pdu: vec![],
    })
}

pub fn status_reply(da: u8, sa: u8, state: u8, status: u8) -> Vec<u8> {
    wire::encode(&Frame::Data {
        da,
        sa,
        dsap: None,
        ssap: None,
        fc: wire::fc_response(state, status),
        pdu: vec![],
    })
}
