//! Scenario generators: expand a run seed into an explicit scenario (DESIGN §2.4, §2.6, §6).

use crate::rng::{derive, Rng};
use crate::scenario::*;

#[derive(Clone, Copy, PartialEq, Eq, Debug)]
pub enum Tier {
    Quick,
    Thorough,
}

impl Tier {
    pub fn name(self) -> &'static str {
        match self {
            Tier::Quick => "quick",
            Tier::Thorough => "thorough",
        }
    }
}

pub fn bit_us(baud: u64, bits: u64) -> u64 {
    bits * 1_000_000 / baud
}

/// Largest poll period (µs) allowed by the reaction-time assumption of DESIGN §5.1:
/// 3·P + 44 bit + 2 µs ≤ Tslot and P ≤ Tslot/4; extra delays of buggify sites are subtracted.
pub fn max_poll_period_us(baud: u64, slot_bits: u16, extra_us: u64) -> u64 {
    let tslot = bit_us(baud, u64::from(slot_bits));
    let fixed = (46 * 1_000_000u64).div_ceil(baud) + 2 + extra_us;
    let a = tslot / 4;
    let b = tslot.saturating_sub(fixed) / 3;
    a.min(b).max(1)
}

pub struct RingOpts {
    pub n_min: usize,
    pub n_max: usize,
    pub max_hsa: u8,
    pub max_gap: u8,
    pub apps: bool,
    pub responders: bool,
    pub staged_joins: bool,
    pub leaves: bool,
    pub buggify: bool,
    pub skew: bool,
    /// Number of idle rotations to keep running after the expected convergence.
    pub extra_rotations: u64,
    /// With applications: cap TTR at this many slot times (0 = no cap) to keep runs short.
    pub ttr_cap_slots: u64,
}

pub fn pick_baud(r: &mut Rng) -> u64 {
    // weighted towards the extremes and the common rates
    *r.pick(&[
        9600, 19200, 19200, 31250, 45450, 93750, 187_500, 187_500, 500_000, 500_000, 1_500_000, 1_500_000, 3_000_000, 6_000_000,
        12_000_000, 12_000_000,
    ])
}

pub fn pick_slot_bits(r: &mut Rng, baud: u64) -> u16 {
    let m = min_slot_bits(baud);
    match r.below(6) {
        0 => m,
        1 => m + r.below(20) as u16,
        2 | 3 => r.range(u64::from(m), u64::from(m) * 3) as u16,
        4 => r.range(u64::from(m), 1500.max(u64::from(m))) as u16,
        _ => r.range(u64::from(m), 4000) as u16,
    }
}

/// Distinct station addresses below `hsa` following one of the patterns of DESIGN §6 C01/C02.
pub fn pick_addresses(r: &mut Rng, n: usize, hsa: u8) -> Vec<u8> {
    let h = u64::from(hsa);
    let mut v: Vec<u8> = Vec::new();
    let add = |v: &mut Vec<u8>, a: u64| {
        let a = (a % h) as u8;
        if !v.contains(&a) {
            v.push(a);
        }
    };
    match r.below(8) {
        0 => {
            // adjacent block, possibly wrapping
            let s = r.below(h);
            for k in 0..n as u64 {
                add(&mut v, s + k);
            }
        }
        1 => {
            add(&mut v, 0);
            add(&mut v, h - 1);
        }
        2 => {
            // TS-1 pair
            let s = r.range(1, h - 1);
            add(&mut v, s);
            add(&mut v, s - 1);
        }
        3 => {
            add(&mut v, h - 1);
        }
        4 => {
            add(&mut v, 0);
        }
        5 => {
            add(&mut v, h - 1);
            add(&mut v, h.saturating_sub(2));
        }
        _ => {}
    }
    let mut guard = 0;
    while v.len() < n && guard < 1000 {
        let a = r.below(h);
        add(&mut v, a);
        guard += 1;
    }
    v.truncate(n);
    r.shuffle(&mut v);
    v
}

fn traffic_app(r: &mut Rng, targets: &[u8]) -> AppCfg {
    let appetite = match r.below(5) {
        0 => Appetite::Never,
        1 => Appetite::Always,
        2 => Appetite::Burst(r.range(1, 4) as u32),
        _ => Appetite::Sometimes(r.range(50, 900) as u32),
    };
    let mut t: Vec<u8> = Vec::new();
    for _ in 0..r.range(1, 3) {
        t.push(*r.pick(targets));
    }
    let mut kinds = Vec::new();
    for _ in 0..r.range(1, 3) {
        kinds.push(r.pick(&[ReqKind::SdnLow, ReqKind::SdnHigh, ReqKind::SrdLow, ReqKind::SrdHigh, ReqKind::FdlStatus]).clone());
    }
    AppCfg::Traffic(TrafficCfg {
        appetite,
        targets: t,
        kinds,
        max_pdu: *r.pick(&[0usize, 1, 8, 32, 240]),
        honour_hp: r.chance(1, 2),
    })
}

/// Largest max_tsdr (bits) a stub may use: what `build_verified` demands (max_tsdr + 15 <= Tslot)
/// minus the stack's clock resolution (2 µs) and the delays of enabled buggify sites — with a
/// slow PHY the user has to configure a longer slot time (DESIGN §5.1).
pub fn max_tsdr_cap(baud: u64, slot_bits: u16, extra_us: u64) -> u16 {
    let margin_bits = ((2 + extra_us) * baud).div_ceil(1_000_000);
    (u64::from(slot_bits).saturating_sub(15 + margin_bits)).max(11) as u16
}

pub fn responder(addr: u8, r: &mut Rng, tsdr_cap: u16) -> SlaveCfg {
    let max_tsdr = r.range(11, u64::from(tsdr_cap).max(11)) as u16;
    SlaveCfg {
        addr,
        ident: r.next_u64() as u16,
        dp: false,
        in_len: 0,
        out_len: 0,
        cfg: vec![],
        prm_len: None,
        min_tsdr: 11,
        max_tsdr,
        power: vec![(0, true)],
        not_ready_n: 0,
        dh_pm: 0,
        ext_diag: vec![],
        sc_for_empty: true,
        honour_watchdog: false,
    }
}

/// Worst-case duration of one idle token rotation with `n` stations, in Tslot units (DESIGN §5.4).
pub fn rotation_slots(n: u64) -> u64 {
    3 * n
}

/// B_conv of DESIGN §5.4 in Tslot units.
pub fn conv_bound_slots(n: u64, joiners: u64, hsa: u64, gap: u64, a_max: u64) -> u64 {
    2 * ((7 + 2 * a_max) + 2 * hsa + joiners.max(1) * (gap + hsa + 6) * 3 * n)
}

/// A world of real stations forming a ring (engine *ring*).
pub fn ring_world(r: &mut Rng, tier: Tier, o: &RingOpts) -> (WorldCfg, OracleCfg) {
    let baud = pick_baud(r);
    let slot_bits = pick_slot_bits(r, baud);
    let n = r.range(o.n_min as u64, o.n_max as u64) as usize;
    let hsa = match r.below(5) {
        0 => 126u8.min(o.max_hsa),
        1 => (n as u8 + r.below(3) as u8).max(2).min(o.max_hsa),
        _ => r.range((n as u64 + 1).max(2), u64::from(o.max_hsa)) as u8,
    };
    let n = n.min(usize::from(hsa));
    let addrs = pick_addresses(r, n, hsa);
    let n = addrs.len();
    let gap_common = r.range(1, u64::from(o.max_gap)) as u8;
    let tslot_us = bit_us(baud, u64::from(slot_bits)).max(1);

    // buggify sites that cost reaction time
    let mut extra_us = 0u64;
    let rx_chunk_us = if o.buggify && r.chance(1, 4) {
        let c = r.range(1, (tslot_us / 8).max(1));
        extra_us += c;
        c
    } else {
        0
    };
    let tx_done = if o.buggify {
        match r.below(4) {
            0 => {
                let d = r.range(1, (tslot_us / 8).max(1));
                extra_us += d;
                TxDoneCfg::LateUs(d)
            }
            1 => TxDoneCfg::Early,
            _ => TxDoneCfg::Exact,
        }
    } else {
        TxDoneCfg::Exact
    };
    let p_cap = max_poll_period_us(baud, slot_bits, extra_us);

    // responders (stub) for application traffic and live lists
    let mut slaves = Vec::new();
    let mut resp_addrs = Vec::new();
    if o.responders {
        for _ in 0..r.below(3) {
            let a = r.below(126) as u8;
            if !addrs.contains(&a) && !resp_addrs.contains(&a) {
                resp_addrs.push(a);
                slaves.push(responder(a, r, max_tsdr_cap(baud, slot_bits, extra_us)));
            }
        }
    }
    let mut targets: Vec<u8> = addrs.clone();
    targets.extend(resp_addrs.iter());
    targets.push(r.below(126) as u8); // probably absent

    // online plan
    let cold = !o.staged_joins || r.chance(1, 2);
    let a_max = u64::from(*addrs.iter().max().unwrap());
    let rot_us = rotation_slots(n as u64) * tslot_us;
    let mut join_times = vec![0u64; n];
    let mut quiet_from = 0u64;
    if !cold {
        // some stations start together, the rest joins later (possibly several at once)
        let first = r.range(1, (n as u64 - 1).max(1)) as usize;
        let base = (8 + 2 * a_max) * tslot_us + (u64::from(hsa) + 4) * 2 * tslot_us;
        let mut t = base + r.range(0, 20) * rot_us;
        for jt in join_times.iter_mut().take(n).skip(first) {
            if !r.chance(1, 3) {
                t += r.range(0, 3 * (u64::from(gap_common) + 2)) * rot_us + r.below(rot_us.max(1));
            }
            *jt = t;
            quiet_from = quiet_from.max(t);
        }
    }
    // graceful leaves before the quiet point
    let mut leave_times: Vec<Option<u64>> = vec![None; n];
    if o.leaves && n >= 3 && r.chance(1, 3) {
        let k = r.below(n as u64) as usize;
        let t = quiet_from.max((8 + 2 * a_max) * tslot_us) + r.range(5, 60) * rot_us;
        leave_times[k] = Some(t);
        quiet_from = t;
    }

    let mut stations = Vec::new();
    for (i, a) in addrs.iter().enumerate() {
        let p_max = match r.below(5) {
            0 => p_cap,
            1 => (p_cap / 2).max(1),
            2 => r.range(1, p_cap),
            _ => r.range((p_cap / 3).max(1), p_cap),
        };
        let p_min = match r.below(3) {
            0 => p_max,
            1 => 1.max(p_max / 2),
            _ => r.range(1, p_max),
        };
        let mut ttr = match r.below(4) {
            0 => 256,
            1 => r.range(256, 5000) as u32,
            2 => r.range(5000, 100_000) as u32,
            _ => u32::from(hsa) * 5000,
        };
        if o.apps && o.ttr_cap_slots > 0 {
            ttr = ttr.min((o.ttr_cap_slots * u64::from(slot_bits)) as u32).max(256);
        }
        let mut apps = Vec::new();
        if o.apps {
            let na = r.weighted(&[3, 3, 2, 1]);
            for _ in 0..na {
                if r.chance(1, 5) {
                    apps.push(AppCfg::LiveList);
                } else {
                    apps.push(traffic_app(r, &targets));
                }
            }
        }
        let mut plan = vec![(join_times[i], PlanOp::Online)];
        if let Some(t) = leave_times[i] {
            plan.push((t, PlanOp::Offline));
        }
        let single_poll_api = r.chance(1, 2);
        stations.push(StationCfg {
            addr: *a,
            slot_bits,
            hsa,
            gap: if r.chance(1, 4) { r.range(1, u64::from(o.max_gap)) as u8 } else { gap_common },
            ttr,
            retry: r.range(1, 15) as u8,
            min_tsdr: 11,
            watchdog_ms: None,
            p_min_us: p_min,
            p_max_us: p_max,
            clock_off_us: if r.chance(1, 2) { 0 } else { r.range_i(-1_000_000, 1_000_000_000) },
            skew_ppm: if o.skew && r.chance(1, 4) { r.range_i(-200, 200) as i32 } else { 0 },
            plan,
            apps,
            single_poll_api,
            tx_done: tx_done.clone(),
            rx_chunk_us,
            dup_poll_pm: if o.buggify && r.chance(1, 3) { r.range(1, 100) as u32 } else { 0 },
            stale_rx: vec![],
        });
    }
    let gap_max = stations.iter().map(|s| u64::from(s.gap)).max().unwrap_or(1);
    let joiners = n as u64;
    // With application traffic a rotation may take up to TTR plus one message cycle per station
    // (C13), so the rotation term of the bound is stretched accordingly.
    let ttr_max_us = stations.iter().map(|s| bit_us(baud, u64::from(s.ttr))).max().unwrap_or(0);
    let cycle_us = bit_us(baud, 2 * 256 * 11) + 2 * tslot_us;
    let rot_traffic_us = if o.apps { rot_us + ttr_max_us + n as u64 * cycle_us } else { rot_us };
    let bound_us = 2 * ((7 + 2 * a_max) + 2 * u64::from(hsa)) * tslot_us + 2 * joiners.max(1) * (gap_max + u64::from(hsa) + 6) * rot_traffic_us;
    let stable_rot = match tier {
        Tier::Quick => (gap_max + u64::from(hsa) + 3).min(o.extra_rotations.max(8)),
        Tier::Thorough => gap_max + u64::from(hsa) + 3,
    };
    let stable_us = stable_rot * rot_traffic_us;
    let end_us = quiet_from + bound_us + stable_us + 10 * tslot_us;
    let world = WorldCfg {
        baud,
        stations,
        slaves,
        adversary: None,
        collision_garbles: r.chance(1, 2),
        end_us,
        max_polls: match tier {
            Tier::Quick => 250_000,
            Tier::Thorough => 6_000_000,
        },
        log_all: false,
    };
    let oracle = OracleCfg {
        quiet_from_us: quiet_from,
        bound_us,
        stable_us,
        bound_cycles: 0,
        extra: vec![],
    };
    (world, oracle)
}

pub fn generate(check: &str, tier: Tier, base_seed: u64, k: u64) -> Scenario {
    let seed = derive(base_seed, check, k);
    let mut r = Rng::derived(seed, "gen", 0);
    let (world, oracle, faults) = match check {
        "C01" => {
            let o = RingOpts {
                n_min: 2,
                n_max: 5,
                max_hsa: if tier == Tier::Quick { 40 } else { 126 },
                max_gap: if tier == Tier::Quick { 5 } else { 30 },
                apps: true,
                responders: true,
                staged_joins: true,
                leaves: false,
                buggify: true,
                skew: true,
                extra_rotations: 30,
                ttr_cap_slots: 60,
            };
            let (w, o) = ring_world(&mut r, tier, &o);
            (w, o, vec![])
        }
        "C02" => {
            let o = RingOpts {
                n_min: 2,
                n_max: 5,
                max_hsa: if tier == Tier::Quick { 32 } else { 126 },
                max_gap: if tier == Tier::Quick { 5 } else { 100 },
                apps: r.chance(1, 4),
                responders: false,
                staged_joins: true,
                leaves: true,
                buggify: r.chance(1, 2),
                skew: true,
                extra_rotations: 40,
                ttr_cap_slots: 30,
            };
            let (w, o) = ring_world(&mut r, tier, &o);
            (w, o, vec![])
        }
        other => panic!("harness: no generator for check {other}"),
    };
    Scenario {
        check: check.to_string(),
        tier: tier.name().to_string(),
        seed,
        world,
        faults,
        oracle,
        expect: None,
    }
}
