//! Scenario generators: expand a run seed into an explicit scenario (DESIGN §2.4, §2.6, §6).

use crate::rng::{derive, Rng};
use crate::scenario::*;

#[derive(Clone, Copy, PartialEq, Eq, Debug)]
pub enum Tier {
    Quick,
    Thorough,
}

impl Tier {
    pub fn name(self) -> &'static str {
        match self {
            Tier::Quick => "quick",
            Tier::Thorough => "thorough",
        }
    }
}

pub fn bit_us(baud: u64, bits: u64) -> u64 {
    bits * 1_000_000 / baud
}

/// Largest poll period (µs) allowed by the reaction-time assumption of DESIGN §5.1:
/// 3·P + 44 bit + 2 µs ≤ Tslot and P ≤ Tslot/4; extra delays of buggify sites are subtracted.
pub fn max_poll_period_us(baud: u64, slot_bits: u16, extra_us: u64) -> u64 {
    let tslot = bit_us(baud, u64::from(slot_bits));
    let fixed = (46 * 1_000_000u64).div_ceil(baud) + 2 + extra_us;
    let a = tslot / 4;
    let b = tslot.saturating_sub(fixed) / 3;
    a.min(b).max(1)
}

pub struct RingOpts {
    pub n_min: usize,
    pub n_max: usize,
    pub max_hsa: u8,
    pub max_gap: u8,
    pub apps: bool,
    pub responders: bool,
    pub staged_joins: bool,
    pub leaves: bool,
    pub buggify: bool,
    pub skew: bool,
    /// Number of idle rotations to keep running after the expected convergence.
    pub extra_rotations: u64,
    /// With applications: cap TTR at this many slot times (0 = no cap) to keep runs short.
    pub ttr_cap_slots: u64,
    /// Construct an unsynchronised cold start whose claim time-outs expire together (C06).
    pub claim_race: bool,
    /// Local clocks start at or after 0 (C13, see DESIGN 6 C13).
    pub nonneg_clock: bool,
    /// Applications on (almost) every station, several per station.
    pub many_apps: bool,
}

pub fn pick_baud(r: &mut Rng) -> u64 {
    // weighted towards the extremes and the common rates
    *r.pick(&[
        9600, 19200, 19200, 31250, 45450, 93750, 187_500, 187_500, 500_000, 500_000, 1_500_000, 1_500_000, 3_000_000, 6_000_000,
        12_000_000, 12_000_000,
    ])
}

pub fn pick_slot_bits(r: &mut Rng, baud: u64) -> u16 {
    let m = min_slot_bits(baud);
    match r.below(6) {
        0 => m,
        1 => m + r.below(20) as u16,
        2 | 3 => r.range(u64::from(m), u64::from(m) * 3) as u16,
        4 => r.range(u64::from(m), 1500.max(u64::from(m))) as u16,
        _ => r.range(u64::from(m), 4000) as u16,
    }
}

/// Distinct station addresses below `hsa` following one of the patterns of DESIGN §6 C01/C02.
pub fn pick_addresses(r: &mut Rng, n: usize, hsa: u8) -> Vec<u8> {
    let h = u64::from(hsa);
    let mut v: Vec<u8> = Vec::new();
    let add = |v: &mut Vec<u8>, a: u64| {
        let a = (a % h) as u8;
        if !v.contains(&a) {
            v.push(a);
        }
    };
    match r.below(8) {
        0 => {
            // adjacent block, possibly wrapping
            let s = r.below(h);
            for k in 0..n as u64 {
                add(&mut v, s + k);
            }
        }
        1 => {
            add(&mut v, 0);
            add(&mut v, h - 1);
        }
        2 => {
            // TS-1 pair
            let s = r.range(1, h - 1);
            add(&mut v, s);
            add(&mut v, s - 1);
        }
        3 => {
            add(&mut v, h - 1);
        }
        4 => {
            add(&mut v, 0);
        }
        5 => {
            add(&mut v, h - 1);
            add(&mut v, h.saturating_sub(2));
        }
        _ => {}
    }
    let mut guard = 0;
    while v.len() < n && guard < 1000 {
        let a = r.below(h);
        add(&mut v, a);
        guard += 1;
    }
    v.truncate(n);
    r.shuffle(&mut v);
    v
}

fn traffic_app(r: &mut Rng, targets: &[u8]) -> AppCfg {
    let appetite = match r.below(5) {
        0 => Appetite::Never,
        1 => Appetite::Always,
        2 => Appetite::Burst(r.range(1, 4) as u32),
        _ => Appetite::Sometimes(r.range(50, 900) as u32),
    };
    let mut t: Vec<u8> = Vec::new();
    for _ in 0..r.range(1, 3) {
        t.push(*r.pick(targets));
    }
    let mut kinds = Vec::new();
    for _ in 0..r.range(1, 3) {
        kinds.push(
            r.pick(&[
                ReqKind::SdnLow,
                ReqKind::SdnHigh,
                ReqKind::SrdLow,
                ReqKind::SrdHigh,
                ReqKind::FdlStatus,
                ReqKind::SdnLow,
                ReqKind::SdnHigh,
                ReqKind::SrdLow,
                ReqKind::SrdHigh,
                ReqKind::FdlStatus,
                ReqKind::SdaLow,
                ReqKind::SdaHigh,
                ReqKind::SdaLow,
                ReqKind::Ident,
                ReqKind::LsapStatus,
                ReqKind::MulticastSrd,
                ReqKind::TimeEvent,
                ReqKind::ClockValue,
            ])
            .clone(),
        );
    }
    AppCfg::Traffic(TrafficCfg {
        appetite,
        targets: t,
        kinds,
        max_pdu: *r.pick(&[0usize, 1, 8, 32, 240]),
        honour_hp: r.chance(1, 2),
    })
}

/// Largest max_tsdr (bits) a stub may use: what `build_verified` demands (max_tsdr + 15 <= Tslot)
/// minus the stack's clock resolution (2 µs) and the delays of enabled buggify sites — with a
/// slow PHY the user has to configure a longer slot time (DESIGN §5.1).
pub fn max_tsdr_cap(baud: u64, slot_bits: u16, extra_us: u64) -> u16 {
    let margin_bits = ((2 + extra_us) * baud).div_ceil(1_000_000);
    (u64::from(slot_bits).saturating_sub(15 + margin_bits)).max(11) as u16
}

pub fn responder(addr: u8, r: &mut Rng, tsdr_cap: u16) -> SlaveCfg {
    let max_tsdr = r.range(11, u64::from(tsdr_cap).max(11)) as u16;
    SlaveCfg {
        addr,
        ident: r.next_u64() as u16,
        dp: false,
        in_len: 0,
        out_len: 0,
        cfg: vec![],
        prm_len: None,
        min_tsdr: 11,
        max_tsdr,
        power: vec![(0, true)],
        not_ready_n: 0,
        dh_pm: 0,
        ext_diag: vec![],
        sc_for_empty: true,
        honour_watchdog: false,
        fdl_status_code: if r.chance(1, 4) { *r.pick(&[1u8, 2, 3, 8, 9, 10, 12, 13]) } else { 0 },
        delimiter_payload: false,
        sd2_always: r.chance(1, 6),
        odd_status: (0, 0),
    }
}

/// Worst-case duration of one idle token rotation with `n` stations, in Tslot units (DESIGN §5.4).
pub fn rotation_slots(n: u64) -> u64 {
    3 * n
}

/// B_conv of DESIGN §5.4 in Tslot units.
pub fn conv_bound_slots(n: u64, joiners: u64, hsa: u64, gap: u64, a_max: u64) -> u64 {
    2 * ((7 + 2 * a_max) + 2 * hsa + joiners.max(1) * (gap + hsa + 6) * 3 * n)
}

/// A world of real stations forming a ring (engine *ring*).
pub fn ring_world(r: &mut Rng, tier: Tier, o: &RingOpts) -> (WorldCfg, OracleCfg) {
    let baud = pick_baud(r);
    let slot_bits = pick_slot_bits(r, baud);
    let n = r.range(o.n_min as u64, o.n_max as u64) as usize;
    let hsa = match r.below(5) {
        0 => 126u8.min(o.max_hsa),
        1 => (n as u8 + r.below(3) as u8).max(2).min(o.max_hsa),
        _ => r.range((n as u64 + 1).max(2), u64::from(o.max_hsa)) as u8,
    };
    let n = n.min(usize::from(hsa));
    let mut addrs = pick_addresses(r, n, hsa);
    let n = addrs.len();
    // The same pattern moved to the top of the address space (HSA = 126, a station at 125 when the
    // pattern has one at HSA-1): the 8-bit and 16-bit ends of the time-out arithmetic.
    let hsa = if r.chance(1, 10) {
        let off = 126 - hsa;
        for a in addrs.iter_mut() {
            *a += off;
        }
        126
    } else {
        hsa
    };
    let gap_common = r.range(1, u64::from(o.max_gap)) as u8;
    let tslot_us = bit_us(baud, u64::from(slot_bits)).max(1);

    // buggify sites that cost reaction time
    let mut extra_us = 0u64;
    let rx_chunk_us = if o.buggify && r.chance(1, 4) {
        // counted twice: the receiver sees the telegram late and the sender sees the answer late
        let c = r.range(1, (tslot_us / 10).max(1));
        extra_us += 2 * c;
        c
    } else {
        0
    };
    let tx_done = if o.buggify {
        match r.below(4) {
            0 => {
                let d = r.range(1, (tslot_us / 8).max(1));
                extra_us += d;
                TxDoneCfg::LateUs(d)
            }
            1 => TxDoneCfg::Early,
            _ => TxDoneCfg::Exact,
        }
    } else {
        TxDoneCfg::Exact
    };
    let p_cap = max_poll_period_us(baud, slot_bits, extra_us);

    // responders (stub) for application traffic and live lists
    let mut slaves = Vec::new();
    let mut resp_addrs = Vec::new();
    if o.responders {
        for _ in 0..(r.below(3) + u64::from(o.many_apps)) {
            let a = r.below(126) as u8;
            if !addrs.contains(&a) && !resp_addrs.contains(&a) {
                resp_addrs.push(a);
                slaves.push(responder(a, r, max_tsdr_cap(baud, slot_bits, extra_us)));
            }
        }
    }
    let mut targets: Vec<u8> = addrs.clone();
    targets.extend(resp_addrs.iter());
    targets.push(r.below(126) as u8); // probably absent

    // online plan
    let cold = !o.staged_joins || r.chance(1, 2);
    let a_max = u64::from(*addrs.iter().max().unwrap());
    let rot_us = rotation_slots(n as u64) * tslot_us;
    let mut join_times = vec![0u64; n];
    let mut quiet_from = 0u64;
    if !cold {
        // some stations start together, the rest joins later (possibly several at once)
        let first = r.range(1, (n as u64 - 1).max(1)) as usize;
        let base = (8 + 2 * a_max) * tslot_us + (u64::from(hsa) + 4) * 2 * tslot_us;
        let mut t = base + r.range(0, 20) * rot_us;
        for jt in join_times.iter_mut().take(n).skip(first) {
            if !r.chance(1, 3) {
                t += r.range(0, 3 * (u64::from(gap_common) + 2)) * rot_us + r.below(rot_us.max(1));
            }
            *jt = t;
            quiet_from = quiet_from.max(t);
        }
    }
    if o.claim_race && cold && r.chance(1, 2) {
        // Online instants chosen so that the address-staggered time-outs expire together
        // (random instants almost never collide, DESIGN 6 C06).
        let t_all = (8 + 2 * a_max) * tslot_us;
        for (i, a) in addrs.iter().enumerate() {
            let to = (6 + 2 * u64::from(*a)) * tslot_us;
            join_times[i] = t_all - to + r.range(0, p_cap.max(1) * 2);
        }
        quiet_from = t_all;
    }
    // graceful leaves before the quiet point
    let mut leave_times: Vec<Option<u64>> = vec![None; n];
    let mut rejoin_times: Vec<Option<u64>> = vec![None; n];
    if o.leaves && n >= 2 && r.chance(1, 3) {
        let k = r.below(n as u64) as usize;
        let t = quiet_from.max((8 + 2 * a_max) * tslot_us) + r.range(5, 60) * rot_us;
        leave_times[k] = Some(t);
        quiet_from = t;
        // ... and possibly comes back (the same station object: set_offline() then set_online()),
        // sooner or later than the others need to notice that it was gone
        if n == 2 || r.chance(1, 2) {
            let back = t + match r.below(3) {
                0 => r.range(1, 30) * tslot_us,
                1 => r.range(1, 20 + 4 * a_max) * tslot_us,
                _ => r.range(1, 30) * rot_us,
            };
            rejoin_times[k] = Some(back);
            quiet_from = back;
        }
    }

    let mut stations = Vec::new();
    for (i, a) in addrs.iter().enumerate() {
        let p_max = match r.below(5) {
            0 => p_cap,
            1 => (p_cap / 2).max(1),
            2 => r.range(1, p_cap),
            _ => r.range((p_cap / 3).max(1), p_cap),
        };
        let p_min = match r.below(3) {
            0 => p_max,
            1 => 1.max(p_max / 2),
            _ => r.range(1, p_max),
        };
        let mut ttr = match r.below(4) {
            0 => 256,
            1 => r.range(256, 5000) as u32,
            2 => r.range(5000, 100_000) as u32,
            _ => u32::from(hsa) * 5000,
        };
        if o.apps && o.ttr_cap_slots > 0 {
            ttr = ttr.min((o.ttr_cap_slots * u64::from(slot_bits)) as u32).max(256);
        }
        let mut apps = Vec::new();
        if o.apps {
            let na = if o.many_apps { r.weighted(&[1, 4, 3, 2]) } else { r.weighted(&[3, 3, 2, 1]) };
            for _ in 0..na {
                if r.chance(1, 5) {
                    apps.push(AppCfg::LiveList);
                } else {
                    apps.push(traffic_app(r, &targets));
                }
            }
        }
        let mut plan = vec![(join_times[i], PlanOp::Online)];
        if let Some(t) = leave_times[i] {
            plan.push((t, PlanOp::Offline));
        }
        let mut rejoin_keep_apps = None;
        if let Some(t) = rejoin_times[i] {
            plan.push((t, PlanOp::Online));
            if apps.len() >= 2 && r.chance(1, 2) {
                rejoin_keep_apps = Some(r.below(apps.len() as u64) as u8);
            }
        }
        let single_poll_api = r.chance(1, 2);
        stations.push(StationCfg {
            addr: *a,
            slot_bits,
            hsa,
            gap: if r.chance(1, 4) { r.range(1, u64::from(o.max_gap)) as u8 } else { gap_common },
            ttr,
            retry: r.range(1, 15) as u8,
            min_tsdr: 11,
            watchdog_ms: None,
            p_min_us: p_min,
            p_max_us: p_max,
            clock_off_us: if r.chance(1, 2) { 0 } else { r.range_i(if o.nonneg_clock { 0 } else { -1_000_000 }, 1_000_000_000) },
            skew_ppm: if o.skew && r.chance(1, 4) { r.range_i(-200, 200) as i32 } else { 0 },
            plan,
            apps,
            single_poll_api,
            rejoin_keep_apps,
            tx_done: tx_done.clone(),
            rx_chunk_us,
            tx_lag_us: 0,
            dup_poll_pm: if o.buggify && r.chance(1, 3) { r.range(1, 100) as u32 } else { 0 },
            stale_rx: vec![],
        });
    }
    let gap_max = stations.iter().map(|s| u64::from(s.gap)).max().unwrap_or(1);
    let joiners = n as u64;
    // With application traffic a rotation may take up to TTR plus one message cycle per station
    // (C13), so the rotation term of the bound is stretched accordingly.
    let ttr_max_us = stations.iter().map(|s| bit_us(baud, u64::from(s.ttr))).max().unwrap_or(0);
    let cycle_us = bit_us(baud, 2 * 256 * 11) + 2 * tslot_us;
    let rot_traffic_us = if o.apps { rot_us + ttr_max_us + n as u64 * cycle_us } else { rot_us };
    let bound_us = 2 * ((7 + 2 * a_max) + 2 * u64::from(hsa)) * tslot_us + 2 * joiners.max(1) * (gap_max + u64::from(hsa) + 6) * rot_traffic_us;
    let stable_rot = match tier {
        Tier::Quick => (gap_max + u64::from(hsa) + 3).min(o.extra_rotations.max(8)),
        Tier::Thorough => gap_max + u64::from(hsa) + 3,
    };
    // now and then a small ring is watched for several hundred rotations (counters that wrap
    // after 255 visits)
    let stable_rot = if n <= 3 && r.chance(1, 10) { stable_rot.max(300) } else { stable_rot };
    let stable_us = stable_rot * rot_traffic_us;
    let end_us = quiet_from + bound_us + stable_us + 10 * tslot_us;
    let world = WorldCfg {
        baud,
        stations,
        slaves,
        adversary: None,
        collision_garbles: r.chance(1, 2),
        end_us,
        max_polls: match tier {
            Tier::Quick => 250_000,
            Tier::Thorough => 6_000_000,
        },
        log_all: false,
        fault_deadline_us: 0,
    };
    let oracle = OracleCfg {
        quiet_from_us: quiet_from,
        bound_us,
        stable_us,
        bound_cycles: 0,
        extra: vec![],
    };
    (world, oracle)
}


// ------------------------------------------------------------------------------------------
// engine *dp*

pub struct DpOpts {
    pub n_min: usize,
    pub n_max: usize,
    /// Wire faults (storm) in a window.
    pub wire_faults: bool,
    /// Byzantine replies, fault flags, power cycles of the reference slaves.
    pub slave_faults: bool,
    /// Slaves that deliberately do not match the configured options.
    pub mismatch: bool,
    pub user_writes: bool,
    pub user_diag: bool,
    pub user_reset: bool,
    pub second_master: bool,
    pub second_app: bool,
    /// Emphasise extreme process-image lengths.
    pub big_images: bool,
    /// Fault phase followed by a fault-free phase that is long enough for the liveness bound.
    pub quiet_phase: bool,
    pub take_every_poll: bool,
    /// `DpMaster::add()` for the last peripherals while the bus runs (every fifth world).
    pub late_add: bool,
    /// `reset_address()` to another address at which a twin of the slave answers.
    pub alt_addr: bool,
}

fn pick_len(r: &mut Rng, big: bool, max: usize) -> usize {
    let v = if big {
        match r.below(8) {
            0 => 0,
            1 => 1,
            2 => max,
            3 => max - 1,
            4 => r.range(2, 16) as usize,
            // 8 data bytes: the fixed-length frame format SD3 (and its SD2 twin with LE = 11)
            5 => 8,
            _ => r.range(0, max as u64) as usize,
        }
    } else {
        match r.below(8) {
            0 => 0,
            1 => 1,
            2 => r.range(17, 64) as usize,
            3 => max,
            4 => 8,
            _ => r.range(1, 16) as usize,
        }
    };
    v.min(max)
}

fn byz_shape(r: &mut Rng, master: u8) -> ByzShape {
    match r.below(20) {
        0 => {
            if r.chance(1, 4) {
                ByzShape::ReadyDiag
            } else {
                ByzShape::Silent
            }
        }
        1 => ByzShape::Late,
        2 => ByzShape::WrongSsap,
        3 => ByzShape::WrongDsap,
        4 => ByzShape::NoSaps,
        5 => ByzShape::ShortPdu,
        6 => ByzShape::LongPdu,
        7 => ByzShape::EmptyPdu,
        8 | 9 => ByzShape::Status(*r.pick(&[0u8, 1, 2, 3, 8, 9, 10, 12, 13])),
        10 => ByzShape::ScInsteadOfData,
        11 => ByzShape::DataInsteadOfSc,
        12 => ByzShape::WrongSource(r.below(127) as u8),
        13 => ByzShape::WrongDest(if r.chance(1, 2) { master.wrapping_add(1) & 0x7F } else { r.below(127) as u8 }),
        14 => ByzShape::Token,
        15 => ByzShape::Request,
        16 => {
            let n = r.range(1, 10) as usize;
            ByzShape::Garbage(r.bytes(n))
        }
        17 => {
            if r.chance(1, 2) {
                // (the longest cut is replaced by the nested-telegram shape: added later, placed
                // here so that every other scenario of a seed stays what it was)
                match r.range(1, 12) as u8 {
                    12 => ByzShape::Nested,
                    k => ByzShape::Truncated(k),
                }
            } else {
                let n = r.range(1, 4) as usize;
                ByzShape::Trailing(r.bytes(n))
            }
        }
        _ => {
            // extended diagnostics of every block type incl. malformed headers
            let n = r.range(1, 12) as usize;
            let mut e = r.bytes(n);
            if r.chance(1, 2) {
                e[0] = *r.pick(&[0x00u8, 0x40, 0x01, 0x41, 0x42, 0x80, 0xC0, 0x3F, 0x7F, 0x02, 0x44]);
            }
            ByzShape::ExtDiag(e)
        }
    }
}

pub fn dp_world(r: &mut Rng, tier: Tier, o: &DpOpts) -> (WorldCfg, OracleCfg, Vec<Fault>) {
    let baud = pick_baud(r);
    let slot_bits = pick_slot_bits(r, baud);
    let tslot_us = bit_us(baud, u64::from(slot_bits)).max(1);
    let hsa = r.range(2, if tier == Tier::Quick { 12 } else { 40 }) as u8;
    let master = r.below(u64::from(hsa)) as u8;
    let mut used: Vec<u8> = vec![master];
    let second_master = if o.second_master && hsa >= 3 && r.chance(1, 3) {
        let mut a = r.below(u64::from(hsa)) as u8;
        while a == master {
            a = r.below(u64::from(hsa)) as u8;
        }
        used.push(a);
        Some(a)
    } else {
        None
    };
    let extra_us = 0u64;
    let rx_chunk_us = 0u64;
    let p_cap = max_poll_period_us(baud, slot_bits, extra_us);
    let tsdr_cap = max_tsdr_cap(baud, slot_bits, extra_us);
    let n = r.range(o.n_min as u64, o.n_max as u64) as usize;
    let retry = match r.below(4) {
        0 => 1,
        1 => r.range(2, 4) as u8,
        2 => r.range(1, 15) as u8,
        _ => 1,
    };
    let watchdog_ms = if r.chance(1, 2) {
        Some(match r.below(4) {
            0 => 10,
            1 => r.range(10, 2550) as u32,
            2 => r.range(2550, 650_000) as u32,
            _ => *r.pick(&[100u32, 1000, 650_000, 2560, 25_500]),
        })
    } else {
        None
    };
    let min_tsdr = r.range(11, 11 + u64::from(tsdr_cap.saturating_sub(11)).min(40)) as u8;

    let mut peripherals = Vec::new();
    let mut slaves = Vec::new();
    let mut cycle_bits: u64 = 3 * u64::from(slot_bits) + 1000;
    for _ in 0..n {
        let mut a = r.below(126) as u8;
        while used.contains(&a) {
            a = r.below(126) as u8;
        }
        used.push(a);
        let in_len = pick_len(r, o.big_images, 244);
        let out_len = pick_len(r, o.big_images, 244);
        let up_len = match r.below(6) {
            0 => 0,
            1 => 237,
            _ => r.range(0, 24) as usize,
        };
        let cfg_len = match r.below(6) {
            0 => 1,
            1 => 244,
            _ => r.range(1, 16) as usize,
        };
        let user_prm = if r.chance(1, 30) { None } else { Some(r.bytes(up_len)) };
        let config = if r.chance(1, 30) { None } else { Some(r.bytes(cfg_len)) };
        // (idents, like payloads, sometimes made of bytes that look like frame delimiters)
        let ident = if r.chance(1, 5) {
            u16::from(*r.pick(&[0x10u8, 0x68, 0xA2, 0xDC, 0xE5, 0x16])) << 8 | u16::from(*r.pick(&[0x10u8, 0x68, 0xA2, 0xDC, 0xE5, 0x16]))
        } else {
            r.next_u64() as u16
        };
        let max_tsdr = r.range(u64::from(min_tsdr), u64::from(tsdr_cap).max(u64::from(min_tsdr))) as u16;
        let pc = PeriphCfg {
            addr: a,
            ident,
            sync: r.chance(1, 4),
            freeze: r.chance(1, 4),
            groups: if r.chance(1, 2) { 0 } else { r.byte() },
            max_tsdr,
            fail_safe: r.chance(1, 2),
            user_prm: user_prm.clone(),
            config: config.clone(),
            in_len,
            out_len,
            diag_buf: *r.pick(&[0usize, 0, 6, 16, 64, 244]),
            add_at_us: 0,
            alt_addr: None,
        };
        // the slave behind it
        let mut sc = SlaveCfg {
            addr: a,
            ident,
            dp: true,
            in_len,
            out_len,
            cfg: config.clone().unwrap_or_else(|| vec![0x11]),
            prm_len: if r.chance(1, 2) { None } else { Some(up_len) },
            min_tsdr: 11,
            max_tsdr,
            power: vec![(0, true)],
            not_ready_n: if r.chance(1, 4) { r.range(1, 3) as u8 } else { 0 },
            dh_pm: if r.chance(1, 4) { r.range(5, 200) as u32 } else { 0 },
            ext_diag: if r.chance(1, 4) {
                // well-formed device-related block
                let l = r.range(2, 8) as usize;
                let mut e = vec![l as u8];
                e.extend(r.bytes(l - 1));
                e
            } else {
                vec![]
            },
            sc_for_empty: r.chance(1, 2),
            honour_watchdog: r.chance(1, 2),
            fdl_status_code: 0,
            delimiter_payload: r.chance(1, 5),
            sd2_always: r.chance(1, 6),
            odd_status: (0, 0),
        };
        if o.mismatch && r.chance(1, 6) {
            match r.below(4) {
                0 => sc.ident = ident.wrapping_add(1),
                1 => sc.cfg.push(0x21),
                2 => sc.prm_len = Some(up_len + 1),
                _ => sc.in_len = (in_len + 1).min(244),
            }
        }
        match r.below(10) {
            0 => sc.power = vec![],                                            // never there
            1 => sc.power = vec![(r.range(1, 400) * tslot_us, true)],          // appears later
            _ => {}
        }
        // (a generator of its own: the other choices of a seed stay what they were)
        {
            let mut ro = Rng::new(u64::from(a) ^ (u64::from(ident) << 8) ^ 0x0DD5_7A75);
            if ro.chance(1, 4) {
                sc.odd_status = (*ro.pick(&[0x80u8, 0x20, 0x01, 0xA1, 0x00]), *ro.pick(&[0x40u8, 0x80, 0xC0, 0x00]));
            }
        }
        let turn = (u64::from(retry) + 1) * (11 * (in_len as u64 + out_len as u64 + up_len as u64 + cfg_len as u64 + 40) + u64::from(slot_bits) + 100);
        cycle_bits += turn;
        peripherals.push(pc);
        slaves.push(sc);
    }
    // an extra passive responder for the second application
    let mut second_app = None;
    if o.second_app && r.chance(1, 3) {
        second_app = Some(match r.below(3) {
            0 => AppCfg::LiveList,
            1 => AppCfg::Scanner,
            _ => traffic_app(r, &used),
        });
        cycle_bits += 2 * (11 * 300 + u64::from(slot_bits));
    }

    // time line: bring-up, fault window, quiet phase
    let cycle_us = bit_us(baud, cycle_bits).max(tslot_us);
    let claim_us = (8 + 2 * u64::from(master.max(second_master.unwrap_or(0)))) * tslot_us + (u64::from(hsa) + 3) * 2 * tslot_us;
    let t1 = claim_us + r.range(0, 12) * cycle_us / (u64::from(retry) + 1);
    let win_cycles = r.range(3, if tier == Tier::Quick { 40 } else { 150 });
    let t2 = t1 + win_cycles * cycle_us / (u64::from(retry) + 1);
    // population changes of the reference slaves end with the fault window
    for s in slaves.iter_mut() {
        for p in s.power.iter_mut() {
            if p.0 > t2 {
                p.0 = t1 + (p.0 % (t2 - t1).max(1));
            }
        }
    }
    let mut faults = Vec::new();
    if o.wire_faults && r.chance(5, 6) {
        let level = *r.pick(&[10u32, 30, 60, 100, 200]);
        faults.push(Fault {
            trig: Trigger::At(t1),
            delay_us: 0,
            kind: FaultKind::Storm {
                until_us: t2,
                drop_pm: r.range(0, u64::from(level)) as u32,
                flip_pm: r.range(0, u64::from(level)) as u32,
                rxdrop_pm: r.range(0, u64::from(level) / 2) as u32,
                trunc_pm: r.range(0, u64::from(level) / 2) as u32,
                dup_pm: if o.quiet_phase { 0 } else { r.range(0, u64::from(level) / 4) as u32 },
                seed: r.next_u64(),
            },
        });
    }
    if o.slave_faults && !slaves.is_empty() {
        let nf = r.range(0, 8);
        for _ in 0..nf {
            let sl = r.below(slaves.len() as u64) as usize;
            let t = r.range(t1.min(t2 - 1), t2 - 1);
            let kind = match r.below(6) {
                0 => {
                    // power cycle
                    let back = t + r.range(1, 2 * (u64::from(retry) + 2)) * cycle_us / (u64::from(retry) + 1);
                    faults.push(Fault { trig: Trigger::At(back.min(t2)), kind: FaultKind::SlavePower { slave: sl, on: true }, delay_us: 0 });
                    FaultKind::SlavePower { slave: sl, on: false }
                }
                1 => FaultKind::SlaveFlag {
                    slave: sl,
                    flag: r.pick(&[SlaveFlagKind::PrmFault, SlaveFlagKind::CfgFault, SlaveFlagKind::NotReady, SlaveFlagKind::PrmReq, SlaveFlagKind::StatDiag]).clone(),
                    count: r.range(1, 3) as u8,
                },
                2 => FaultKind::SlaveReset { slave: sl },
                _ => {
                    // C07 quantifies over lost or corrupted telegrams, power cycles, fault reports
                    // and user calls: replies that are late, duplicated or of a foreign kind are
                    // outside it (they are generated for the safety properties and for C05)
                    let mut shape = byz_shape(r, master);
                    while o.quiet_phase && matches!(shape, ByzShape::Late | ByzShape::Token | ByzShape::Request | ByzShape::ScInsteadOfData | ByzShape::DataInsteadOfSc | ByzShape::Trailing(_)) {
                        shape = byz_shape(r, master);
                    }
                    FaultKind::SlaveByz { slave: sl, shape, count: r.range(1, 3) as u8 }
                }
            };
            faults.push(Fault { trig: Trigger::At(t), kind, delay_us: 0 });
        }
        // some slaves stay off for good after the window (must be reported Offline)
        if o.quiet_phase && r.chance(1, 5) {
            let sl = r.below(slaves.len() as u64) as usize;
            faults.push(Fault { trig: Trigger::At(t2 - 1), kind: FaultKind::SlavePower { slave: sl, on: false }, delay_us: 0 });
        }
    }
    // Every fourth world (C03): one peripheral has a twin at another address and the user process
    // moves it there and back with `reset_address()`.  (A generator of its own.)
    let mut alt_reset = false;
    if o.alt_addr && !peripherals.is_empty() {
        let mut ra = Rng::new(t1 ^ (t2 << 17) ^ u64::from(master) ^ 0xA17A_DD2E);
        if ra.chance(1, 4) {
            let k = ra.below(peripherals.len() as u64) as usize;
            let mut a = ra.below(u64::from(hsa).min(126)) as u8;
            let mut guard = 0;
            while (used.contains(&a) || a == master) && guard < 300 {
                a = ra.below(126) as u8;
                guard += 1;
            }
            if guard < 300 {
                if let Some(twin) = slaves.iter().find(|s| s.addr == peripherals[k].addr).cloned() {
                    let mut twin = twin;
                    twin.addr = a;
                    slaves.push(twin);
                    peripherals[k].alt_addr = Some(a);
                    alt_reset = true;
                }
            }
        }
    }
    let user = UserCfg {
        write_pm: if o.user_writes { *r.pick(&[0u32, 20, 100, 400]) } else { 0 },
        diag_pm: if o.user_diag { *r.pick(&[0u32, 0, 5, 30, 150]) } else { 0 },
        reset_pm: if o.user_reset && r.chance(1, 4) { *r.pick(&[1u32, 5]) } else if alt_reset { 2 } else { 0 },
        reset_inflight_pm: 0,
        take_every: if o.take_every_poll { 1 } else { *r.pick(&[1u32, 1, 2, 7]) },
        until_us: if o.quiet_phase { t2 } else { 0 },
    };
    // A watchdog shorter than the bus cycle is a user configuration error (the slave keeps
    // falling back to Wait_Prm); for the liveness check the reference slaves only honour
    // watchdogs the bus can satisfy.
    if o.quiet_phase {
        let need_us = 6 * (cycle_us + if second_master.is_some() { bit_us(baud, 2000) + 4 * tslot_us } else { 0 });
        if watchdog_ms.map(|ms| u64::from(ms) * 1000 < need_us).unwrap_or(false) {
            for s in slaves.iter_mut() {
                s.honour_watchdog = false;
            }
        }
    }
    let bound_cycles = 4 * (u64::from(retry) + 3) + 8;
    // a second master takes its share of every rotation
    let other_share_us = if second_master.is_some() { bit_us(baud, 2000) + 4 * tslot_us } else { 0 };
    let bound_us = bound_cycles * (cycle_us + other_share_us + 4 * tslot_us);
    let end_us = if o.quiet_phase { t2 + bound_us + 4 * cycle_us } else { t2 + 12 * cycle_us };

    // Every fifth world: the application adds the last one or two peripherals while the bus
    // runs (DpMaster::add() is legal at any time).  Drawn from a generator of its own so that the
    // rest of the scenario is the one the same seed produced before this was added.
    let mut peripherals = peripherals;
    {
        let mut ra = Rng::new(t1 ^ (t2 << 20) ^ u64::from(master) ^ 0xADD0_ADD0);
        if o.late_add && !peripherals.is_empty() && ra.chance(1, 5) {
            let late = (ra.range(1, 2) as usize).min(peripherals.len());
            let from = peripherals.len() - late;
            let mut at = ra.range(1, (t2 - 1).max(2));
            for p in peripherals[from..].iter_mut() {
                p.add_at_us = at;
                at = (at + ra.range(0, 2 * cycle_us)).min((t2 - 1).max(1));
            }
        }
    }
    let mut apps = vec![AppCfg::Dp(DpCfg {
        slots: if r.chance(1, 2) { None } else { Some(n + r.below(3) as usize) },
        reserved: 0,
        peripherals,
        user,
        operate_at_us: if r.chance(1, 4) { r.range(1, claim_us) } else { 0 },
    })];
    if let Some(a) = second_app {
        if r.chance(1, 2) {
            apps.push(a);
        } else {
            apps.insert(0, a);
        }
    }
    let mk_station = |r: &mut Rng, addr: u8, apps: Vec<AppCfg>, ttr: u32| {
        let p_max = match r.below(4) {
            0 => p_cap,
            1 => (p_cap / 2).max(1),
            _ => r.range((p_cap / 4).max(1), p_cap),
        };
        StationCfg {
            addr,
            slot_bits,
            hsa,
            gap: r.range(1, 10) as u8,
            ttr,
            retry,
            min_tsdr,
            watchdog_ms,
            p_min_us: if r.chance(1, 2) { p_max } else { (p_max / 2).max(1) },
            p_max_us: p_max,
            clock_off_us: if r.chance(1, 2) { 0 } else { r.range_i(0, 1_000_000_000) },
            skew_ppm: 0,
            plan: vec![(0, PlanOp::Online)],
            single_poll_api: apps.len() == 1 && r.chance(1, 2),
            rejoin_keep_apps: None,
            apps,
            tx_done: TxDoneCfg::Exact,
            rx_chunk_us,
            tx_lag_us: 0,
            dup_poll_pm: if r.chance(1, 4) { r.range(1, 50) as u32 } else { 0 },
            stale_rx: vec![],
        }
    };
    let ttr = match r.below(4) {
        0 => r.range(256, 3000) as u32, // token hold time runs out in the middle of a cycle
        1 => r.range(3000, 50_000) as u32,
        _ => u32::from(hsa) * 5000,
    };
    let mut stations = vec![mk_station(r, master, apps, ttr)];
    if let Some(a) = second_master {
        let apps2 = if r.chance(1, 2) { vec![] } else { vec![traffic_app(r, &used)] };
        let ttr2 = r.range(256, 20_000) as u32;
        let mut s2 = mk_station(r, a, apps2, ttr2);
        s2.retry = r.range(1, 4) as u8;
        s2.watchdog_ms = None;
        stations.push(s2);
    }
    let world = WorldCfg {
        baud,
        stations,
        slaves,
        adversary: None,
        collision_garbles: r.chance(1, 2),
        end_us,
        max_polls: match tier {
            Tier::Quick => 400_000,
            Tier::Thorough => 4_000_000,
        },
        log_all: false,
        fault_deadline_us: if o.quiet_phase { t2 } else { 0 },
    };
    let oracle = OracleCfg {
        quiet_from_us: t2,
        bound_us,
        stable_us: 0,
        bound_cycles,
        extra: vec![],
    };
    (world, oracle, faults)
}


/// Fault plan for the ring engine (C06): a window [t1, t2] with wire faults and station faults.
pub fn ring_faults(r: &mut Rng, w: &mut WorldCfg, o: &mut OracleCfg, tier: Tier) -> Vec<Fault> {
    let baud = w.baud;
    let n = w.stations.len();
    let slot_bits = w.stations[0].slot_bits;
    let tslot_us = bit_us(baud, u64::from(slot_bits)).max(1);
    let hsa = u64::from(w.stations[0].hsa);
    let a_max = w.stations.iter().map(|s| u64::from(s.addr)).max().unwrap_or(0);
    let gap_max = w.stations.iter().map(|s| u64::from(s.gap)).max().unwrap_or(1);
    let t1 = o.quiet_from_us + r.range(10, 600) * tslot_us;
    let t2 = t1 + r.range(20, if tier == Tier::Quick { 300 } else { 1500 }) * tslot_us;
    let mut faults = Vec::new();
    if r.chance(4, 5) {
        let level = *r.pick(&[10u32, 30, 60, 100]);
        faults.push(Fault {
            trig: Trigger::At(t1),
            delay_us: 0,
            kind: FaultKind::Storm {
                until_us: t2,
                drop_pm: r.range(0, u64::from(level)) as u32,
                flip_pm: r.range(0, u64::from(level)) as u32,
                rxdrop_pm: r.range(0, u64::from(level)) as u32,
                trunc_pm: r.range(0, u64::from(level) / 2) as u32,
                dup_pm: 0,
                seed: r.next_u64(),
            },
        });
    }
    let nf = r.range(0, 6);
    for _ in 0..nf {
        let st = r.below(n as u64) as usize;
        let addr = w.stations[st].addr;
        let t = r.range(t1, t2 - 1);
        // triggers biased to token telegrams so that faults land on in-flight state
        let trig = match r.below(4) {
            0 => Trigger::NthTx { n: r.range(0, 3000) as u32, class: TxClass::TokenTo(addr) },
            1 => Trigger::NthTx { n: r.range(0, 6000) as u32, class: TxClass::Token },
            _ => Trigger::At(t),
        };
        let delay_us = if r.chance(1, 2) { 0 } else { r.range(0, 3 * tslot_us) };
        let kind = match r.below(12) {
            10 => FaultKind::Deaf { station: st, us: r.range(1, 150) * tslot_us },
            11 => FaultKind::Mute { station: st, us: r.range(1, 150) * tslot_us },
            0 | 1 => FaultKind::Crash { station: st, restart_after_us: None },
            2 | 3 => FaultKind::Crash { station: st, restart_after_us: Some(r.range(0, 40 * tslot_us)) },
            4 | 5 => FaultKind::Stall { station: st, us: r.range(1, 40) * tslot_us },
            6 => {
                faults.push(Fault { trig: Trigger::At(t + r.range(1, 200) * tslot_us), kind: FaultKind::GoOnline { station: st }, delay_us: 0 });
                FaultKind::GoOffline { station: st }
            }
            7 => FaultKind::ClockJump { station: st, delta_us: r.range(1, 100 * tslot_us) as i64 },
            8 => {
                let nb = r.range(1, 12) as usize;
                FaultKind::Noise { bytes: r.bytes(nb) }
            }
            _ => {
                let nb = r.range(1, 6) as usize;
                FaultKind::Collide { after_chars: r.below(3) as u16, bytes: r.bytes(nb) }
            }
        };
        let trig = if matches!(kind, FaultKind::Collide { .. }) { Trigger::NthTx { n: r.range(0, 4000) as u32, class: TxClass::Any } } else { trig };
        faults.push(Fault { trig, kind, delay_us });
    }
    if r.chance(1, 8) {
        let st = r.below(n as u64) as usize;
        let nb = r.range(1, 8) as usize;
        w.stations[st].stale_rx = r.bytes(nb);
    }
    // everything (incl. restarts and stalls) is over some time after t2
    let quiet = t2 + 45 * tslot_us + 205 * tslot_us;
    let bound_slots = conv_bound_slots(n as u64, n as u64, hsa, gap_max, a_max) + (6 + 2 * a_max) + 9 * n as u64;
    o.quiet_from_us = quiet;
    w.fault_deadline_us = t2;
    // the rotation term of the bound already accounts for traffic in ring_world(); rebuild it
    let base = o.bound_us;
    o.bound_us = base.max(bound_slots * tslot_us) + ((6 + 2 * a_max) + 9 * n as u64) * tslot_us;
    w.end_us = quiet + o.bound_us + o.stable_us + 10 * tslot_us;
    faults
}


// ------------------------------------------------------------------------------------------
// engine *adv*

pub struct AdvOpts {
    /// Mostly protocol-conforming adversary (deep protocol states, few collisions).
    pub polite: bool,
    /// Attach applications to the station (C05): DP master with reference slaves, live list, scanner.
    pub apps: bool,
    /// Everything is allowed: clock jumps backwards, misconfigured HSA, stale RX, user resets.
    pub hostile: bool,
    pub log_all: bool,
}

pub fn adv_world(r: &mut Rng, tier: Tier, o: &AdvOpts) -> (WorldCfg, OracleCfg, Vec<Fault>) {
    let baud = pick_baud(r);
    let slot_bits = pick_slot_bits(r, baud);
    let tslot_us = bit_us(baud, u64::from(slot_bits)).max(1);
    let hsa = match r.below(4) {
        0 => 126,
        1 => r.range(2, 8) as u8,
        _ => r.range(3, if tier == Tier::Quick { 24 } else { 126 }) as u8,
    };
    let ts = match r.below(5) {
        0 => 0,
        1 => hsa - 1,
        _ => r.below(u64::from(hsa)) as u8,
    };
    // personas of the adversary: neighbours, strangers, invalid addresses, the station's own
    let mut addrs: Vec<u8> = Vec::new();
    let add = |v: &mut Vec<u8>, a: u8| {
        if !v.contains(&a) {
            v.push(a);
        }
    };
    let h = u64::from(hsa);
    add(&mut addrs, ((u64::from(ts) + 1) % h) as u8);
    add(&mut addrs, ((u64::from(ts) + h - 1) % h) as u8);
    for _ in 0..r.range(0, 3) {
        add(&mut addrs, r.below(h) as u8);
    }
    if r.chance(1, 4) {
        add(&mut addrs, r.range(h.min(125), 127) as u8);
    }
    if r.chance(1, 8) {
        add(&mut addrs, ts);
    }
    if !o.hostile {
        addrs.retain(|a| *a != ts);
    }
    let p_cap = max_poll_period_us(baud, slot_bits, 0);
    let p_max = match r.below(3) {
        0 => p_cap,
        _ => r.range((p_cap / 4).max(1), p_cap),
    };
    let mut apps: Vec<AppCfg> = Vec::new();
    let mut slaves: Vec<SlaveCfg> = Vec::new();
    let mut faults: Vec<Fault> = Vec::new();
    let tsdr_cap = max_tsdr_cap(baud, slot_bits, 0);
    let mut used = addrs.clone();
    used.push(ts);
    let end_slots = match tier {
        Tier::Quick => r.range(300, 3000),
        Tier::Thorough => r.range(300, 20_000),
    };
    let end_us = (8 + 2 * u64::from(ts)) * tslot_us + end_slots * tslot_us;
    if o.apps {
        let napps = r.weighted(&[2, 4, 3, 1]);
        for _ in 0..napps {
            match r.below(5) {
                0 => apps.push(AppCfg::LiveList),
                1 => apps.push(AppCfg::Scanner),
                2 => apps.push(traffic_app(r, &used)),
                _ => {
                    // DP master with 0..3 peripherals
                    let np = r.weighted(&[2, 3, 2, 1]);
                    let mut pers = Vec::new();
                    for _ in 0..np {
                        let mut a = r.below(126) as u8;
                        while used.contains(&a) {
                            a = r.below(126) as u8;
                        }
                        used.push(a);
                        let in_len = pick_len(r, false, 244);
                        let out_len = pick_len(r, false, 244);
                        let up = r.range(0, 12) as usize;
                        let cl = r.range(1, 8) as usize;
                        let config = r.bytes(cl);
                        let ident = r.next_u64() as u16;
                        let max_tsdr = r.range(11, u64::from(tsdr_cap)) as u16;
                        pers.push(PeriphCfg {
                            addr: a,
                            ident,
                            sync: r.chance(1, 4),
                            freeze: r.chance(1, 4),
                            groups: r.byte(),
                            max_tsdr,
                            fail_safe: r.chance(1, 2),
                            user_prm: if r.chance(1, 10) { None } else { Some(r.bytes(up)) },
                            config: if r.chance(1, 10) { None } else { Some(config.clone()) },
                            in_len,
                            out_len,
                            diag_buf: *r.pick(&[0usize, 6, 16, 64, 244]),
                            add_at_us: 0,
                            alt_addr: None,
                        });
                        if r.chance(4, 5) {
                            slaves.push(SlaveCfg {
                                addr: a,
                                ident: if r.chance(1, 8) { ident.wrapping_add(1) } else { ident },
                                dp: true,
                                in_len,
                                out_len,
                                cfg: config,
                                prm_len: None,
                                min_tsdr: 11,
                                max_tsdr,
                                power: vec![(if r.chance(1, 3) { r.range(0, end_us / 2) } else { 0 }, true)],
                                not_ready_n: r.below(3) as u8,
                                dh_pm: if r.chance(1, 3) { r.range(5, 300) as u32 } else { 0 },
                                ext_diag: if r.chance(1, 3) {
                                    let n = r.range(1, 10) as usize;
                                    r.bytes(n)
                                } else {
                                    vec![]
                                },
                                sc_for_empty: r.chance(1, 2),
                                honour_watchdog: r.chance(1, 2),
                                fdl_status_code: 0,
                                delimiter_payload: r.chance(1, 5),
                                sd2_always: r.chance(1, 6),
                                odd_status: (0, 0),
                            });
                        }
                    }
                    apps.push(AppCfg::Dp(DpCfg {
                        slots: if r.chance(1, 2) { None } else { Some(np + r.below(3) as usize) },
                        reserved: 0,
                        peripherals: pers,
                        user: UserCfg {
                            write_pm: *r.pick(&[0u32, 50, 300]),
                            diag_pm: *r.pick(&[0u32, 10, 100]),
                            reset_pm: if r.chance(1, 4) { 3 } else { 0 },
                            reset_inflight_pm: 0,
                            take_every: *r.pick(&[1u32, 1, 3, 50]),
                            until_us: 0,
                        },
                        operate_at_us: if r.chance(1, 4) { r.range(1, end_us / 2) } else { 0 },
                    }));
                }
            }
        }
        // Byzantine slaves
        for _ in 0..r.range(0, 10) {
            if slaves.is_empty() {
                break;
            }
            let sl = r.below(slaves.len() as u64) as usize;
            faults.push(Fault {
                trig: Trigger::NthTx { n: r.range(0, 300) as u32, class: TxClass::DpRequest },
                kind: FaultKind::SlaveByz { slave: sl, shape: byz_shape(r, ts), count: r.range(1, 3) as u8 },
                delay_us: 0,
            });
        }
        if r.chance(1, 2) {
            let level = *r.pick(&[10u32, 50, 150]);
            let t1 = r.range(0, end_us / 2);
            faults.push(Fault {
                trig: Trigger::At(t1),
                delay_us: 0,
                kind: FaultKind::Storm {
                    until_us: t1 + r.range(1, end_us / 2),
                    drop_pm: r.range(0, u64::from(level)) as u32,
                    flip_pm: r.range(0, u64::from(level)) as u32,
                    rxdrop_pm: r.range(0, u64::from(level)) as u32,
                    trunc_pm: r.range(0, u64::from(level)) as u32,
                    dup_pm: r.range(0, u64::from(level) / 2) as u32,
                    seed: r.next_u64(),
                },
            });
        }
    }
    if o.hostile {
        for _ in 0..r.range(0, 4) {
            let t = r.range(0, end_us);
            let kind = match r.below(6) {
                0 => FaultKind::ClockJump { station: 0, delta_us: -(r.range(1, 1000 * tslot_us) as i64) },
                1 => FaultKind::ClockJump { station: 0, delta_us: r.range(1, 1000 * tslot_us) as i64 },
                2 => FaultKind::Stall { station: 0, us: r.range(1, 100) * tslot_us },
                3 => {
                    faults.push(Fault { trig: Trigger::At(t + r.range(1, 500) * tslot_us), kind: FaultKind::GoOnline { station: 0 }, delay_us: 0 });
                    FaultKind::GoOffline { station: 0 }
                }
                4 => {
                    let nb = r.range(1, 20) as usize;
                    FaultKind::Noise { bytes: r.bytes(nb) }
                }
                _ => FaultKind::Crash { station: 0, restart_after_us: Some(r.range(0, 50 * tslot_us)) },
            };
            faults.push(Fault { trig: Trigger::At(t), kind, delay_us: 0 });
        }
    }
    let station = StationCfg {
        addr: ts,
        slot_bits,
        // a misconfigured HSA at or below the own address is generated for C05 only
        hsa,
        gap: r.range(1, if tier == Tier::Quick { 4 } else { 20 }) as u8,
        ttr: match r.below(3) {
            0 => 256,
            1 => r.range(256, 20_000) as u32,
            _ => u32::from(hsa) * 5000,
        },
        retry: r.range(1, 4) as u8,
        min_tsdr: 11,
        watchdog_ms: if r.chance(1, 3) { Some(r.range(10, 5000) as u32) } else { None },
        p_min_us: if r.chance(1, 2) { p_max } else { r.range(1, p_max) },
        p_max_us: p_max,
        clock_off_us: if r.chance(1, 2) { 0 } else { r.range_i(if o.hostile { -1_000_000_000 } else { 0 }, 1_000_000_000) },
        skew_ppm: 0,
        plan: vec![(0, PlanOp::Online)],
        single_poll_api: apps.len() == 1 && r.chance(1, 2),
        rejoin_keep_apps: None,
        apps,
        tx_done: if o.hostile { r.pick(&[TxDoneCfg::Exact, TxDoneCfg::Exact, TxDoneCfg::Early]).clone() } else { TxDoneCfg::Exact },
        rx_chunk_us: 0,
        tx_lag_us: 0,
        dup_poll_pm: if r.chance(1, 3) { r.range(1, 100) as u32 } else { 0 },
        stale_rx: if o.hostile && r.chance(1, 6) {
            let n = r.range(1, 12) as usize;
            r.bytes(n)
        } else {
            vec![]
        },
    };
    let adversary = AdvCfg {
        addrs,
        coop_pm: if o.polite { *r.pick(&[850u32, 950, 1000, 1000]) } else { *r.pick(&[300u32, 600, 800, 900, 950, 1000]) },
        gap_bits: if o.polite { *r.pick(&[1000u32, 5000, 20000]) } else { *r.pick(&[60u32, 200, 1000, 5000]) },
        until_us: end_us,
        partner: r.chance(3, 4),
        script: vec![],
    };
    let world = WorldCfg {
        baud,
        stations: vec![station],
        slaves,
        adversary: Some(adversary),
        collision_garbles: r.chance(1, 2),
        end_us,
        max_polls: match tier {
            Tier::Quick => 300_000,
            Tier::Thorough => 3_000_000,
        },
        log_all: o.log_all,
        fault_deadline_us: 0,
    };
    (world, OracleCfg::default(), faults)
}


// ------------------------------------------------------------------------------------------
// engine *rx*

fn random_frame(r: &mut Rng) -> crate::wire::Frame {
    use crate::wire::{self, Frame};
    match r.below(12) {
        0 | 1 => Frame::Token { da: r.below(128) as u8, sa: r.below(128) as u8 },
        2 => Frame::Sc,
        _ => {
            let dsap = if r.chance(1, 2) { Some(r.byte()) } else { None };
            let ssap = if r.chance(1, 2) { Some(r.byte()) } else { None };
            let saps = usize::from(dsap.is_some()) + usize::from(ssap.is_some());
            // length byte 3..=249 overall; weighted to SD1 / SD3 / the extremes
            let max_pdu = 246 - saps;
            let n = match r.below(8) {
                0 => 0,
                1 => 8usize.saturating_sub(saps),
                2 => max_pdu,
                3 => max_pdu - 1,
                4 => 1,
                _ => r.range(0, 40) as usize,
            };
            let fc = if r.chance(1, 2) {
                let req = *r.pick(&[0u8, 3, 4, 5, 6, 7, 9, 12, 13, 14, 15, 0x80]);
                wire::fc_request(r.chance(1, 2), r.chance(1, 2), req)
            } else {
                wire::fc_response(r.below(4) as u8, *r.pick(&[0u8, 1, 2, 3, 8, 9, 10, 12, 13]))
            };
            Frame::Data { da: r.below(128) as u8, sa: r.below(128) as u8, dsap, ssap, fc, pdu: r.bytes(n) }
        }
    }
}

pub fn rx_scenario(r: &mut Rng, tier: Tier, decoder: bool) -> crate::rx::RxCfg {
    use crate::rx::{ChunkMode, RxCfg, RxItem};
    use crate::wire;
    let baud = pick_baud(r);
    let char_us = (11_000_000u64).div_ceil(baud).max(1);
    let n_items = if decoder { r.range(1, 6) } else { r.range(1, 12) } as usize;
    let simulator_phy = !decoder && r.chance(1, 3);
    let with_damage = decoder || (!simulator_phy && r.chance(1, 4));
    let mut items = Vec::new();
    for k in 0..n_items {
        let f = random_frame(r);
        // also the non-canonical but valid SD2 forms of frames that fit SD1 / SD3
        let good = if r.chance(1, 6) { wire::encode_sd2_forced(&f) } else { wire::encode(&f) };
        let mut bytes = good.clone();
        let mut original = None;
        let mut damage = String::new();
        let kind = if with_damage { r.below(if decoder { 10 } else { 8 }) } else { 99 };
        match kind {
            0 | 1 => {
                // single bit error at a position class
                let i = pick_pos(r, &bytes);
                bytes[i] ^= 1 << r.below(8);
                original = Some(good.clone());
                damage = "bitflip".into();
            }
            2 => {
                // byte substitution, biased to the special bytes
                let i = pick_pos(r, &bytes);
                let v = *r.pick(&[0x10u8, 0x68, 0xA2, 0xDC, 0xE5, 0x16, 0x00, 0xFF, 0x80]);
                let v = if r.chance(1, 2) { v } else { r.byte() };
                if bytes[i] != v {
                    bytes[i] = v;
                    original = Some(good.clone());
                    damage = "byte_subst".into();
                }
            }
            3 if decoder => {
                let keep = r.below(bytes.len() as u64) as usize;
                bytes.truncate(keep.max(1));
                damage = "truncate".into();
            }
            4 if decoder => {
                let n = r.range(1, 20) as usize;
                bytes = r.bytes(n);
                if r.chance(1, 2) {
                    bytes[0] = *r.pick(&[0x10u8, 0x68, 0xA2, 0xDC, 0xE5]);
                }
                damage = "noise".into();
            }
            5 if decoder => {
                // structured header with random body: 68 LE LEr 68 ...
                // incl. both ends of the legal range 4..=249 and the 8-bit end (LE + 6 > 255)
                let le = if r.chance(1, 3) { *r.pick(&[0u8, 1, 2, 3, 4, 5, 11, 243, 244, 245, 246, 247, 248, 249, 250, 251, 252, 253, 254, 255]) } else { r.range(0, 30) as u8 };
                let ler = if r.chance(3, 4) { le } else { r.byte() };
                let mut b = vec![0x68, le, ler, if r.chance(3, 4) { 0x68 } else { r.byte() }];
                // (a length byte below 3 cannot even hold DA SA FC: sometimes those three bytes and a
                // matching trailer follow anyway)
                let body = if le < 3 && r.chance(1, 2) { 3 } else { usize::from(le) };
                b.extend(r.bytes(body + 2));
                if r.chance(1, 2) && b.len() > 6 {
                    let l = b.len();
                    let fcs = b[4..l - 2].iter().fold(0u8, |a, x| a.wrapping_add(*x));
                    b[l - 2] = fcs;
                    b[l - 1] = 0x16;
                }
                bytes = b;
                damage = "structured".into();
            }
            6 if !decoder => {
                // a short burst of junk that does not start like a telegram: it must be thrown away
                // at once, not kept as the beginning of something
                let n = r.range(1, 5) as usize;
                let mut j = r.bytes(n);
                while matches!(j[0], 0x10 | 0x68 | 0xA2 | 0xDC | 0xE5) {
                    j[0] = j[0].wrapping_add(1);
                }
                bytes = j;
                damage = "junk".into();
            }
            6 if decoder => {
                // two telegrams back to back
                let g = wire::encode(&random_frame(r));
                bytes.extend(g);
                damage = "concat".into();
            }
            7 if decoder => {
                // two single-bit errors
                for _ in 0..2 {
                    let i = pick_pos(r, &bytes);
                    bytes[i] ^= 1 << r.below(8);
                }
                damage = "bitflip2".into();
            }
            _ => {}
        }
        // C16 damaged items must be rejected as a whole (so that they are discarded, not waited for)
        if !decoder && !damage.is_empty() && !matches!(wire::decode(&bytes), wire::Dec::Bad) {
            bytes = good.clone();
            original = None;
            damage.clear();
        }
        let separate = decoder || !damage.is_empty() || items.last().map(|i: &RxItem| !i.damage.is_empty()).unwrap_or(false);
        let gap_bits = if separate {
            r.range(400, 3000) as u32
        } else if simulator_phy {
            r.range(33, 300) as u32
        } else {
            match r.below(4) {
                0 => 0,
                1 => r.range(1, 10) as u32,
                2 => r.range(11, 60) as u32,
                _ => r.range(33, 2000) as u32,
            }
        };
        let _ = k;
        items.push(RxItem { bytes, original, gap_bits, damage });
    }
    let p_max = match r.below(4) {
        0 => (char_us / 3).max(1),
        1 => char_us,
        2 => char_us * r.range(2, 8),
        _ => char_us * r.range(8, 60),
    };
    // isolated items need polls between them
    let p_max = if with_damage { p_max.min((bit_us(baud, 400) / 4).max(1)) } else { p_max };
    let _ = tier;
    RxCfg {
        baud,
        items,
        chunk: match r.below(4) {
            0 => ChunkMode::BurstUs(r.range(1, 40) * char_us),
            1 => ChunkMode::Whole,
            _ => ChunkMode::Exact,
        },
        poll_seed: r.next_u64(),
        p_min_us: if r.chance(1, 2) { p_max } else { (p_max / 4).max(1) },
        p_max_us: p_max,
        simulator_phy,
        decoder_only: decoder,
    }
}

/// A byte position, weighted towards the structural bytes of a frame.
fn pick_pos(r: &mut Rng, b: &[u8]) -> usize {
    let n = b.len();
    match r.below(5) {
        0 => 0,
        1 => n - 1,
        2 => n.saturating_sub(2),
        3 => (r.below(7) as usize).min(n - 1),
        _ => r.below(n as u64) as usize,
    }
}


// ------------------------------------------------------------------------------------------
// engine *scan*

pub fn scan_world(r: &mut Rng, tier: Tier) -> (WorldCfg, OracleCfg, Vec<Fault>) {
    let baud = pick_baud(r);
    let slot_bits = pick_slot_bits(r, baud).min(600);
    let slot_bits = slot_bits.max(min_slot_bits(baud));
    let tslot_us = bit_us(baud, u64::from(slot_bits)).max(1);
    let hsa = r.range(2, 12) as u8;
    let ts = if r.chance(1, 4) { r.below(u64::from(hsa)) as u8 } else { r.below(u64::from(hsa)) as u8 };
    let p_cap = max_poll_period_us(baud, slot_bits, 0);
    let tsdr_cap = max_tsdr_cap(baud, slot_bits, 0);
    let second = if hsa >= 3 && r.chance(1, 4) {
        let mut a = r.below(u64::from(hsa)) as u8;
        while a == ts {
            a = r.below(u64::from(hsa)) as u8;
        }
        Some(a)
    } else {
        None
    };
    let mut used = vec![ts];
    if let Some(a) = second {
        used.push(a);
    }
    // one address sweep: 126 token visits
    let visit_bits = 3 * u64::from(slot_bits) + 700 + if second.is_some() { 2 * u64::from(slot_bits) + 400 } else { 0 };
    let sweep_us = bit_us(baud, 126 * visit_bits);
    let n_sl = r.range(0, 8) as usize;
    let t_changes_end = r.range(1, 3) * sweep_us;
    let mut slaves = Vec::new();
    for _ in 0..n_sl {
        let mut a = match r.below(6) {
            0 => 0,
            1 => 125,
            2 => (ts + 1) % 126,
            3 => r.range(120, 125) as u8,
            _ => r.below(126) as u8,
        };
        let mut guard = 0;
        while used.contains(&a) && guard < 200 {
            a = r.below(126) as u8;
            guard += 1;
        }
        used.push(a);
        let mut sc = responder(a, r, tsdr_cap);
        sc.dp = r.chance(2, 3);
        sc.ident = r.next_u64() as u16;
        // appearance / disappearance history before the quiet point
        let mut power = Vec::new();
        let mut on = r.chance(2, 3);
        power.push((0u64, on));
        for _ in 0..r.below(4) {
            on = !on;
            power.push((r.range(1, t_changes_end.max(2) - 1), on));
        }
        power.sort();
        sc.power = power;
        slaves.push(sc);
    }
    let mut faults = Vec::new();
    if r.chance(2, 3) {
        let level = *r.pick(&[10u32, 40, 120]);
        faults.push(Fault {
            trig: Trigger::At(0),
            delay_us: 0,
            kind: FaultKind::Storm {
                // C18 quantifies over lost replies (lost requests look the same to the scanner):
                // no corruption, which could fabricate telegrams (a stray 0xE5 is a short
                // confirmation, see DESIGN section 7, observation O2)
                until_us: t_changes_end,
                drop_pm: r.range(0, u64::from(level)) as u32,
                flip_pm: 0,
                rxdrop_pm: r.range(0, u64::from(level)) as u32,
                trunc_pm: 0,
                dup_pm: 0,
                seed: r.next_u64(),
            },
        });
    }
    // a reply that comes too late is a lost reply for the probe it belongs to - and is still in
    // the receive buffer when the next address is probed
    if !slaves.is_empty() && r.chance(1, 3) {
        for _ in 0..r.range(1, 4) {
            let sl = r.below(slaves.len() as u64) as usize;
            faults.push(Fault {
                trig: Trigger::NthTx { n: r.range(0, 600) as u32, class: TxClass::Request },
                kind: FaultKind::SlaveByz { slave: sl, shape: ByzShape::Late, count: r.range(1, 3) as u8 },
                delay_us: 0,
            });
        }
    }
    let mut apps = Vec::new();
    match r.below(3) {
        0 => apps.push(AppCfg::LiveList),
        1 => apps.push(AppCfg::Scanner),
        _ => {
            apps.push(AppCfg::LiveList);
            apps.push(AppCfg::Scanner);
        }
    }
    if r.chance(1, 5) {
        apps.push(AppCfg::Unit);
    }
    let mk = |r: &mut Rng, addr: u8, apps: Vec<AppCfg>| {
        let p_max = r.range((p_cap / 3).max(1), p_cap);
        StationCfg {
            addr,
            slot_bits,
            hsa,
            gap: r.range(1, 10) as u8,
            ttr: *r.pick(&[256u32, 2000, 30_000, 600_000]),
            retry: 1,
            min_tsdr: 11,
            watchdog_ms: None,
            p_min_us: if r.chance(1, 2) { p_max } else { (p_max / 2).max(1) },
            p_max_us: p_max,
            clock_off_us: if r.chance(1, 2) { 0 } else { r.range_i(0, 1_000_000_000) },
            skew_ppm: 0,
            plan: vec![(0, PlanOp::Online)],
            single_poll_api: apps.len() == 1 && r.chance(1, 2),
            rejoin_keep_apps: None,
            apps,
            tx_done: TxDoneCfg::Exact,
            rx_chunk_us: 0,
            tx_lag_us: 0,
            dup_poll_pm: if r.chance(1, 4) { r.range(1, 50) as u32 } else { 0 },
            stale_rx: vec![],
        }
    };
    let mut stations = vec![mk(r, ts, apps)];
    if let Some(a) = second {
        stations.push(mk(r, a, vec![]));
    }
    let mut slaves = slaves;
    let _ = tier;
    // Every fifth world (slot time >= 400 bit, up to 1.5 Mbit/s): the scanner's receiver hands
    // bytes over in blocks (USB adapters), with a pause between two blocks that is longer than
    // the 33 bit idle time plus a poll period - a reply usually arrives in two pieces.  The
    // responders answer early enough for the first block to be there within the slot time.  (A
    // generator of its own: the other scenarios of a seed stay what they were.)
    {
        let mut rc = Rng::new(t_changes_end ^ (u64::from(ts) << 40) ^ (u64::from(slot_bits) << 8) ^ 0xC4A2_B10C);
        if rc.chance(1, 5) && slot_bits >= 400 && bit_us(baud, 8) >= 4 {
            let c = bit_us(baud, rc.range(u64::from(slot_bits) / 10, u64::from(slot_bits) / 8)).max(1);
            let idle = bit_us(baud, 34).max(1);
            if c > idle + 3 {
                let p = ((c - idle) / 3).max(1).min(max_poll_period_us(baud, slot_bits, 2 * c));
                let st = &mut stations[0];
                st.rx_chunk_us = c;
                st.p_max_us = st.p_max_us.min(p).max(1);
                st.p_min_us = st.p_min_us.min(st.p_max_us).max(1);
                let cap = max_tsdr_cap(baud, slot_bits, c + 2 * st.p_max_us);
                for sl in slaves.iter_mut() {
                    sl.max_tsdr = sl.max_tsdr.min(cap).max(11);
                    sl.min_tsdr = sl.min_tsdr.min(sl.max_tsdr);
                }
            }
        }
    }
    let end_us = t_changes_end + 6 * sweep_us + 100 * tslot_us;
    let world = WorldCfg {
        baud,
        stations,
        slaves,
        adversary: None,
        collision_garbles: false,
        end_us,
        max_polls: 3_000_000,
        log_all: false,
        fault_deadline_us: t_changes_end,
    };
    let oracle = OracleCfg {
        quiet_from_us: t_changes_end,
        bound_us: 0,
        stable_us: 0,
        bound_cycles: 0,
        extra: vec![],
    };
    (world, oracle, faults)
}

/// Systematic fault placement for the *dp* engine (index -> one or two faults at the n-th request
/// or reply).  Singles come first (48 positions x 10 kinds), then pairs.
fn systematic_dp_faults(idx: u64, w: &WorldCfg, random_plan: &[Fault], quiet_phase: bool) -> Vec<Fault> {
    const POS: u64 = 48;
    const KINDS: u64 = 12;
    let nsl = w.slaves.len() as u64;
    let one = |n: u64, a: u64, out: &mut Vec<Fault>| {
        let sl = (n % nsl) as usize;
        let req = Trigger::NthTx { n: n as u32, class: TxClass::DpRequest };
        let rep = Trigger::NthTx { n: n as u32, class: TxClass::FromStub };
        let (trig, kind) = match a {
            0 => (req, FaultKind::Drop),
            1 => (rep, FaultKind::Drop),
            2 => (rep, FaultKind::BitFlip { byte: (n * 7 % 11) as u16, bit: (n % 8) as u8 }),
            3 => (rep, FaultKind::Truncate { keep: (n % 5 + 1) as u16 }),
            4 => (req, FaultKind::SlaveReset { slave: sl }),
            5 => {
                // power cycle: off at the n-th request, on again a few requests later
                out.push(Fault { trig: Trigger::NthTx { n: (n + 3 + n % 7) as u32, class: TxClass::DpRequest }, kind: FaultKind::SlavePower { slave: sl, on: true }, delay_us: 0 });
                (req, FaultKind::SlavePower { slave: sl, on: false })
            }
            6 if n % 17 == 16 => (req, FaultKind::SlaveByz { slave: sl, shape: ByzShape::Nested, count: 2 }),
            6 => (req, FaultKind::SlaveByz { slave: sl, shape: ByzShape::Silent, count: (n % 17 + 1) as u8 }),
            7 => (req, FaultKind::UserDiag { station: 0, app: 0, periph: sl }),
            8 => (
                req,
                FaultKind::SlaveFlag {
                    slave: sl,
                    flag: [SlaveFlagKind::PrmFault, SlaveFlagKind::CfgFault, SlaveFlagKind::NotReady, SlaveFlagKind::PrmReq, SlaveFlagKind::StatDiag][(n % 5) as usize].clone(),
                    count: (n % 3 + 1) as u8,
                },
            ),
            9 => (req, FaultKind::LostWithStraySc),
            10 => {
                // a negative acknowledgement ("service not activated") to this request, and the
                // next diagnostics reply claims readiness all the same
                out.push(Fault { trig: Trigger::NthTx { n: n as u32, class: TxClass::DpRequest }, kind: FaultKind::SlaveByz { slave: sl, shape: ByzShape::Status(3), count: 1 }, delay_us: 0 });
                (req, FaultKind::SlaveByz { slave: sl, shape: ByzShape::ReadyDiag, count: 1 })
            }
            _ => {
                if quiet_phase {
                    (req, FaultKind::RxDrop { node: 0 })
                } else {
                    (rep, FaultKind::Dup { node: 0 })
                }
            }
        };
        out.push(Fault { trig, kind, delay_us: 0 });
    };
    let mut out = Vec::new();
    let single = idx % (POS * KINDS);
    one(single % POS, single / POS, &mut out);
    let second = idx / (POS * KINDS);
    if second > 0 {
        let s = (second - 1) % (POS * KINDS);
        one(s % POS, s / POS, &mut out);
    }
    // slaves that stay off for good / come late belong to the population plan, not to the storm
    for f in random_plan {
        if matches!(f.kind, FaultKind::SlavePower { on: false, .. }) && matches!(f.trig, Trigger::At(_)) && random_plan.iter().filter(|g| matches!((&g.kind, &f.kind), (FaultKind::SlavePower { slave: a, on: true }, FaultKind::SlavePower { slave: b, .. }) if a == b)).count() == 0 {
            out.push(f.clone());
        }
    }
    out
}

pub fn generate(check: &str, tier: Tier, base_seed: u64, k: u64) -> Scenario {
    let seed = derive(base_seed, check, k);
    let mut r = Rng::derived(seed, "gen", 0);
    if check == "C10" || check == "C16" {
        let rx = rx_scenario(&mut r, tier, check == "C10");
        return Scenario {
            check: check.to_string(),
            tier: tier.name().to_string(),
            seed,
            world: WorldCfg {
                baud: rx.baud,
                stations: vec![],
                slaves: vec![],
                adversary: None,
                collision_garbles: true,
                end_us: 0,
                max_polls: 0,
                log_all: false,
                fault_deadline_us: 0,
            },
            faults: vec![],
            oracle: OracleCfg::default(),
            expect: None,
            rx: Some(rx),
            build: None,
        };
    }
    let (world, oracle, faults) = match check {
        "C01" => {
            let o = RingOpts {
                n_min: 2,
                n_max: 5,
                max_hsa: if tier == Tier::Quick { 40 } else { 126 },
                max_gap: if tier == Tier::Quick { 5 } else { 30 },
                apps: true,
                responders: true,
                staged_joins: true,
                leaves: true,
                buggify: true,
                skew: true,
                extra_rotations: 30,
                ttr_cap_slots: 60,
                claim_race: false,
                nonneg_clock: false,
                many_apps: false,
            };
            let (w, o) = ring_world(&mut r, tier, &o);
            (w, o, Vec::<Fault>::new())
        }
        "C02" => {
            let o = RingOpts {
                n_min: 2,
                n_max: 5,
                max_hsa: if tier == Tier::Quick { 32 } else { 126 },
                max_gap: if tier == Tier::Quick { 5 } else { 100 },
                apps: r.chance(1, 4),
                responders: false,
                staged_joins: true,
                leaves: true,
                buggify: r.chance(1, 2),
                skew: true,
                extra_rotations: 40,
                ttr_cap_slots: 30,
                claim_race: false,
                nonneg_clock: false,
                many_apps: false,
            };
            let (w, o) = ring_world(&mut r, tier, &o);
            (w, o, Vec::<Fault>::new())
        }
        "C18" => scan_world(&mut r, tier),
        "C05" => {
            match r.below(10) {
                0..=4 => {
                    let apps = r.chance(2, 3);
                    adv_world(&mut r, tier, &AdvOpts { polite: false, apps, hostile: true, log_all: true })
                }
                5..=7 => {
                    let o = DpOpts {
                        n_min: 0,
                        n_max: 3,
                        wire_faults: true,
                        slave_faults: true,
                        mismatch: true,
                        user_writes: true,
                        user_diag: true,
                        user_reset: true,
                        second_master: true,
                        second_app: true,
                        big_images: r.chance(1, 3),
                        quiet_phase: false,
                        take_every_poll: false,
                        late_add: true,
                        alt_addr: false,
                    };
                    let (mut w, o, mut f) = dp_world(&mut r, tier, &o);
                    w.log_all = true;
                    // the empty DP master, noise on the bus, API calls
                    let tslot_us = bit_us(w.baud, u64::from(w.stations[0].slot_bits)).max(1);
                    for _ in 0..r.range(0, 4) {
                        let t = r.range(0, w.end_us);
                        let kind = match r.below(4) {
                            0 => {
                                let nb = r.range(1, 16) as usize;
                                FaultKind::Noise { bytes: r.bytes(nb) }
                            }
                            1 => FaultKind::Stall { station: 0, us: r.range(1, 80) * tslot_us },
                            2 => {
                                f.push(Fault { trig: Trigger::At(t + r.range(1, 300) * tslot_us), kind: FaultKind::GoOnline { station: 0 }, delay_us: 0 });
                                FaultKind::GoOffline { station: 0 }
                            }
                            _ => FaultKind::ClockJump { station: 0, delta_us: r.range_i(-1_000_000, 1_000_000) },
                        };
                        f.push(Fault { trig: Trigger::At(t), kind, delay_us: 0 });
                    }
                    if tier == Tier::Thorough && r.chance(1, 10) {
                        // known finding F12: reset_address while a request is outstanding
                        if let AppCfg::Dp(d) = &mut w.stations[0].apps[0] {
                            d.user.reset_inflight_pm = 20;
                        }
                    }
                    (w, o, f)
                }
                _ => {
                    let o = RingOpts {
                        n_min: 1,
                        n_max: 5,
                        max_hsa: if tier == Tier::Quick { 32 } else { 126 },
                        max_gap: 10,
                        apps: true,
                        responders: true,
                        staged_joins: true,
                        leaves: true,
                        buggify: true,
                        skew: true,
                        extra_rotations: 40,
                        ttr_cap_slots: 60,
                        claim_race: true,
                        nonneg_clock: false,
                        many_apps: r.chance(1, 2),
                    };
                    let (mut w, mut o) = ring_world(&mut r, tier, &o);
                    let f = ring_faults(&mut r, &mut w, &mut o, tier);
                    w.log_all = true;
                    w.fault_deadline_us = 0;
                    w.end_us = o.quiet_from_us + 500 * bit_us(w.baud, u64::from(w.stations[0].slot_bits)).max(1);
                    (w, o, f)
                }
            }
        }
        "C11" => {
            if r.chance(1, 3) {
                // real rings with crashes: the retry / removal rules between real stations
                let o = RingOpts {
                    n_min: 3,
                    n_max: 5,
                    max_hsa: if tier == Tier::Quick { 24 } else { 126 },
                    max_gap: 5,
                    apps: false,
                    responders: false,
                    staged_joins: true,
                    leaves: true,
                    buggify: false,
                    skew: false,
                    extra_rotations: 40,
                    ttr_cap_slots: 30,
                    claim_race: false,
                    nonneg_clock: false,
                    many_apps: false,
                };
                let (mut w, o) = ring_world(&mut r, tier, &o);
                let tslot_us = bit_us(w.baud, u64::from(w.stations[0].slot_bits)).max(1);
                let mut f = Vec::new();
                for _ in 0..r.range(1, 2) {
                    // biased to the highest and the lowest address (wrap-around of the successor)
                    let hi = (0..w.stations.len()).max_by_key(|i| w.stations[*i].addr).unwrap();
                    let lo = (0..w.stations.len()).min_by_key(|i| w.stations[*i].addr).unwrap();
                    let st = match r.below(4) {
                        0 | 1 => hi,
                        2 => lo,
                        _ => r.below(w.stations.len() as u64) as usize,
                    };
                    let t = o.quiet_from_us + r.range(100, 2000) * tslot_us + r.below(tslot_us);
                    f.push(Fault {
                        trig: Trigger::At(t),
                        kind: FaultKind::Crash { station: st, restart_after_us: if r.chance(1, 2) { None } else { Some(r.range(50, 500) * tslot_us) } },
                        delay_us: 0,
                    });
                }
                w.end_us = o.quiet_from_us + 6000 * tslot_us;
                (w, o, f)
            } else {
                let polite = r.chance(1, 2);
                let (mut w, o, f) = adv_world(&mut r, tier, &AdvOpts { polite, apps: false, hostile: false, log_all: false });
                // Every fifth world: a transmitter with latency (a different amount for every
                // transmission, up to a quarter of the slot time), polled fast enough that the
                // station still reacts within the slot time.  (A generator of its own: the other
                // scenarios of a seed stay what they were.)
                let mut rl = Rng::derived(seed, "txlag", 0);
                if rl.chance(1, 5) {
                    let st = &mut w.stations[0];
                    let tslot_us = bit_us(w.baud, u64::from(st.slot_bits)).max(1);
                    let lag = rl.range((tslot_us / 16).max(1), (tslot_us / 4).max(1));
                    let p_cap = max_poll_period_us(w.baud, st.slot_bits, lag).min((lag / 4).max(1));
                    st.tx_lag_us = lag;
                    st.p_max_us = st.p_max_us.min(p_cap).max(1);
                    st.p_min_us = st.p_min_us.min(st.p_max_us).max(1);
                    st.tx_done = TxDoneCfg::Exact;
                }
                (w, o, f)
            }
        }
        "C12" => {
            if r.chance(1, 2) {
                let o = RingOpts {
                    n_min: 1,
                    n_max: 4,
                    max_hsa: if tier == Tier::Quick { 24 } else { 126 },
                    max_gap: if tier == Tier::Quick { 6 } else { 100 },
                    apps: r.chance(1, 3),
                    responders: true,
                    staged_joins: true,
                    leaves: true,
                    buggify: false,
                    skew: false,
                    extra_rotations: 60,
                    ttr_cap_slots: 30,
                    claim_race: false,
                    nonneg_clock: false,
                    many_apps: false,
                };
                let (mut w, o) = ring_world(&mut r, tier, &o);
                // slaves inside the GAPs that answer status polls without being masters
                let hsa = w.stations[0].hsa;
                let tsdr = max_tsdr_cap(w.baud, w.stations[0].slot_bits, 0);
                let taken: Vec<u8> = w.stations.iter().map(|s| s.addr).chain(w.slaves.iter().map(|s| s.addr)).collect();
                let base = r.below(u64::from(hsa)) as u8;
                for k in 0..r.range(0, 6) as u8 {
                    let a = (u16::from(base) + u16::from(k)) as u8 % hsa;
                    if !taken.contains(&a) && !w.slaves.iter().any(|s| s.addr == a) {
                        w.slaves.push(responder(a, &mut r, tsdr));
                    }
                }
                (w, o, Vec::<Fault>::new())
            } else {
                let (w, o, mut f) = adv_world(&mut r, tier, &AdvOpts { polite: true, apps: false, hostile: false, log_all: false });
                // the application takes the station off the bus and brings it back (the same
                // station object): what it knew about the ring before must not count afterwards
                if r.chance(1, 3) {
                    let tslot_us = bit_us(w.baud, u64::from(w.stations[0].slot_bits)).max(1);
                    let mut t = r.range(w.end_us / 8, w.end_us / 2);
                    for _ in 0..r.range(1, 3) {
                        f.push(Fault { trig: Trigger::At(t), kind: FaultKind::GoOffline { station: 0 }, delay_us: 0 });
                        t += r.range(1, 400) * tslot_us;
                        f.push(Fault { trig: Trigger::At(t), kind: FaultKind::GoOnline { station: 0 }, delay_us: 0 });
                        t += r.range(200, 3000) * tslot_us;
                    }
                }
                (w, o, f)
            }
        }
        "C06" => {
            let o = RingOpts {
                n_min: 2,
                n_max: 5,
                max_hsa: if tier == Tier::Quick { 32 } else { 126 },
                max_gap: if tier == Tier::Quick { 5 } else { 40 },
                apps: r.chance(1, 4),
                responders: false,
                staged_joins: true,
                leaves: false,
                buggify: r.chance(1, 2),
                skew: false,
                extra_rotations: 40,
                ttr_cap_slots: 30,
                claim_race: true,
                nonneg_clock: false,
                many_apps: false,
            };
            let (mut w, mut o) = ring_world(&mut r, tier, &o);
            let mut f = ring_faults(&mut r, &mut w, &mut o, tier);
            // (clock jumps are C05's business: C06 speaks of damaged or lost telegrams, collisions
            // and stations that stop, restart or go offline)
            f.retain(|x| !matches!(x.kind, FaultKind::ClockJump { .. }));
            // Symmetric pair: two stations polled with the same exact period, the same GAP factor,
            // no jitter and no skew, and a damaged / truncated token or first telegram.  Whatever
            // both stations do in answer to one common event they do in lock-step; if that is
            // transmitting, they never hear each other again (F18).
            let symmetric = w.stations.len() == 2 && r.chance(1, 2);
            // Sole survivor (every sixth of the other worlds; a generator of its own, so that the
            // rest of a seed's scenarios stay what they were): a station that is still listening
            // hears one token whose source address was damaged into its own, and then every other
            // master stops for good.  The listener has to claim the token after its time-out.
            let mut rs = Rng::derived(seed, "survivor", 0);
            if !symmetric && rs.chance(1, 6) {
                let tslot_us = bit_us(w.baud, u64::from(w.stations[0].slot_bits)).max(1);
                let t2 = w.fault_deadline_us.max(400 * tslot_us);
                let li = rs.below(w.stations.len() as u64) as usize;
                let t_join = rs.range(t2 / 4, t2 / 2);
                let l_addr = w.stations[li].addr;
                for (j, s) in w.stations.iter_mut().enumerate() {
                    let t0 = s.plan.first().map(|p| p.0).unwrap_or(0).min(t_join / 4);
                    s.plan = vec![(if j == li { t_join } else { t0 }, PlanOp::Online)];
                    s.rejoin_keep_apps = None;
                }
                f.clear();
                let after = t_join + rs.range(0, 30) * tslot_us;
                let k = rs.range(0, 8) as u32;
                f.push(Fault { trig: Trigger::NthTx { n: k, class: TxClass::TokenAfterUs(after) }, kind: FaultKind::Subst { byte: 2, val: l_addr }, delay_us: 0 });
                let k2 = k + rs.range(0, 3) as u32;
                for j in 0..w.stations.len() {
                    if j != li {
                        f.push(Fault {
                            trig: Trigger::NthTx { n: k2, class: TxClass::TokenAfterUs(after) },
                            kind: FaultKind::Crash { station: j, restart_after_us: None },
                            delay_us: rs.range(0, 3 * tslot_us),
                        });
                    }
                }
            }
            if symmetric {
                let p = w.stations[0].p_max_us.min(w.stations[1].p_max_us).max(1);
                let g = w.stations[0].gap;
                for s in w.stations.iter_mut() {
                    s.p_min_us = p;
                    s.p_max_us = p;
                    s.gap = g;
                    s.skew_ppm = 0;
                    s.dup_poll_pm = 0;
                    s.apps.clear();
                    // cold start together: the address-staggered time-outs keep the claims apart
                    // (the simultaneous claim of exactly synchronous stations is known finding F20)
                    if let Some(first) = s.plan.first_mut() {
                        first.0 = 0;
                    }
                }
                f.retain(|x| !matches!(x.kind, FaultKind::Storm { .. } | FaultKind::Crash { .. } | FaultKind::GoOffline { .. } | FaultKind::GoOnline { .. }));
                let tslot_us = bit_us(w.baud, u64::from(w.stations[0].slot_bits)).max(1);
                let t1 = w.fault_deadline_us.saturating_sub(250 * tslot_us).max(1);
                for _ in 0..r.range(1, 3) {
                    let kind = match r.below(4) {
                        0 => FaultKind::Truncate { keep: r.range(1, 2) as u16 },
                        1 => FaultKind::BitFlip { byte: 0, bit: r.below(8) as u8 },
                        2 => FaultKind::Subst { byte: 0, val: r.byte() },
                        _ => FaultKind::Truncate { keep: r.range(1, 5) as u16 },
                    };
                    let _ = t1;
                    f.push(Fault { trig: Trigger::NthTx { n: r.range(20, 400) as u32, class: if r.chance(2, 3) { TxClass::Token } else { TxClass::FromReal } }, kind, delay_us: 0 });
                }
            }
            (w, o, f)
        }
        "C13" | "C15" => {
            let o = RingOpts {
                n_min: if check == "C15" { 1 } else { 2 },
                n_max: if check == "C15" { 3 } else { 5 },
                max_hsa: if tier == Tier::Quick { 24 } else { 126 },
                max_gap: if tier == Tier::Quick { 5 } else { 30 },
                apps: true,
                responders: true,
                staged_joins: check == "C13",
                leaves: check == "C15",
                buggify: check == "C15",
                skew: true,
                extra_rotations: 60,
                ttr_cap_slots: if tier == Tier::Quick { 60 } else { 400 },
                claim_race: false,
                nonneg_clock: true,
                many_apps: true,
            };
            let (w, o) = ring_world(&mut r, tier, &o);
            // peers that answer late, with foreign addresses, with requests, tokens or not at all
            let mut f = Vec::new();
            if check == "C13" && !w.slaves.is_empty() {
                // peers that time out in the middle of their answer (an incomplete telegram stays
                // in the buffers), do not answer at all, or answer with something else
                for _ in 0..r.range(0, 6) {
                    let sl = r.below(w.slaves.len() as u64) as usize;
                    let shape = match r.below(3) {
                        0 => ByzShape::Silent,
                        _ => ByzShape::Truncated(r.range(1, 12) as u8),
                    };
                    f.push(Fault {
                        trig: Trigger::NthTx { n: r.range(0, 400) as u32, class: TxClass::Request },
                        kind: FaultKind::SlaveByz { slave: sl, shape, count: r.range(1, 2) as u8 },
                        delay_us: 0,
                    });
                }
            }
            if check == "C15" && !w.slaves.is_empty() {
                for _ in 0..r.range(0, 12) {
                    let sl = r.below(w.slaves.len() as u64) as usize;
                    let master = w.stations[0].addr;
                    f.push(Fault {
                        trig: Trigger::NthTx { n: r.range(0, 400) as u32, class: TxClass::Request },
                        kind: FaultKind::SlaveByz { slave: sl, shape: byz_shape(&mut r, master), count: r.range(1, 2) as u8 },
                        delay_us: 0,
                    });
                }
            }
            (w, o, f)
        }
        "C03" | "C04" | "C07" | "C08" | "C14" => {
            let o = DpOpts {
                n_min: if check == "C14" { 0 } else { 1 },
                n_max: if check == "C14" { 4 } else { 3 },
                wire_faults: true,
                slave_faults: true,
                mismatch: matches!(check, "C03" | "C14"),
                user_writes: matches!(check, "C04" | "C08" | "C14"),
                user_diag: true,
                user_reset: matches!(check, "C08" | "C14"),
                second_master: matches!(check, "C14" | "C04"),
                second_app: matches!(check, "C14"),
                big_images: check == "C04",
                quiet_phase: check == "C07",
                take_every_poll: true,
                late_add: true,
                alt_addr: check == "C03",
            };
            let (w, oc, f) = dp_world(&mut r, tier, &o);
            // Every fourth run: the random storm is replaced by a *systematic* placement of one or
            // two faults ("a fault at every point of the exchange"): the n-th DP request or the
            // n-th answer of a slave, for every n of the bring-up and the first cycles and every
            // kind of the alphabet below; the configuration stays random.
            if k % 4 == 3 && !w.slaves.is_empty() {
                let f = systematic_dp_faults(k / 4, &w, &f, o.quiet_phase);
                (w, oc, f)
            } else {
                (w, oc, f)
            }
        }
        other => panic!("harness: no generator for check {other}"),
    };
    Scenario {
        check: check.to_string(),
        tier: tier.name().to_string(),
        seed,
        world,
        faults,
        oracle,
        expect: None,
        rx: None,
        build: None,
    }
}
