//! C18 — live list and DP scanner converge to the stations actually on the bus (R8 live-set
//! model driven by the call log: an address is live iff it answered its last probe).

use crate::apps::{AppCall, AppKind};
use crate::scenario::AppCfg;
use crate::wire::Frame;
use crate::world::{Monitor, PollInfo, ScanEv, Stats, World};

#[derive(Clone, Copy, PartialEq, Eq, Debug)]
enum Kind {
    Live,
    Scan,
}

struct AppSt {
    st: usize,
    app: usize,
    kind: Kind,
    /// Model: answered its last probe (for the scanner: with a valid diagnostics reply).
    known: Vec<bool>,
    ident: Vec<u16>,
    last_da: Option<u8>,
    wraps_after_quiet: u32,
    same_in_a_row: u32,
    /// The last probe was answered or timed out (as opposed to abandoned with the token).
    completed: bool,
    verdict_done: bool,
    probes: u64,
    /// End (ticks) of the latest probe on the wire.
    last_probe_end: Option<u64>,
}

pub struct ScanMonitor {
    prop: &'static str,
    apps: Vec<AppSt>,
    quiet_from: u64,
    pub n_found: u64,
    pub n_lost: u64,
    pub n_requery: u64,
    pub n_verdicts: u64,
}

impl ScanMonitor {
    pub fn new(prop: &'static str, w: &World, quiet_from_us: u64) -> Self {
        let mut apps = Vec::new();
        for (st, s) in w.stations.iter().enumerate() {
            for (app, a) in s.cfg.apps.iter().enumerate() {
                let kind = match a {
                    AppCfg::LiveList => Kind::Live,
                    AppCfg::Scanner => Kind::Scan,
                    _ => continue,
                };
                apps.push(AppSt {
                    st,
                    app,
                    kind,
                    known: vec![false; 128],
                    ident: vec![0; 128],
                    last_da: None,
                    wraps_after_quiet: 0,
                    same_in_a_row: 0,
                    completed: false,
                    verdict_done: false,
                    probes: 0,
                    last_probe_end: None,
                });
            }
        }
        ScanMonitor {
            prop,
            apps,
            quiet_from: w.us(quiet_from_us),
            n_found: 0,
            n_lost: 0,
            n_requery: 0,
            n_verdicts: 0,
        }
    }
}

fn fmt_addrs(v: &[u8]) -> String {
    format!("{:?}", v)
}

impl Monitor for ScanMonitor {
    fn name(&self) -> &'static str {
        "scan"
    }

    fn on_tx(&mut self, w: &World, idx: usize) {
        let bus = w.bus.borrow();
        let tx = &bus.txs[idx];
        if !tx.real {
            return;
        }
        let Some(app) = w.cur_tx_app else { return };
        let Some(a) = self.apps.iter_mut().find(|a| a.st == tx.sender && a.app == app) else { return };
        let Some(f) = tx.frame.as_ref() else { return };
        let Some(da) = f.da() else { return };
        a.probes += 1;
        let master = w.stations[a.st].cfg.addr;
        if da > 125 {
            w.violate(self.prop, "scan.range", "probe-beyond-125", Some(master), format!("{:?} of #{master} probes address #{da}", a.kind));
            return;
        }
        // request shape
        let ok = match a.kind {
            Kind::Live => f.is_fdl_status_request(),
            Kind::Scan => matches!(f, Frame::Data { dsap: Some(60), ssap: Some(62), pdu, .. } if pdu.is_empty()) && f.request_expecting_reply().is_some(),
        };
        if !ok {
            w.violate(self.prop, "scan.range", "unexpected-probe-telegram", Some(master), format!("{:?} of #{master} sends {}", a.kind, f.short()));
            return;
        }
        if let Some(prev) = a.last_da {
            if da < prev && w.now >= self.quiet_from {
                a.wraps_after_quiet += 1;
            }
            // the sweep moves on whatever the answer was (a reply that is no status / diagnostics
            // response, a time-out, a token lost in between)
            if da == prev && a.completed {
                // (a probe that was abandoned because the token got lost is sent again; one that was
                // answered or timed out is over)
                a.same_in_a_row += 1;
                if a.same_in_a_row >= 2 {
                    w.violate(
                        self.prop,
                        "scan.progress",
                        "sweep-stuck",
                        Some(master),
                        format!("{:?} of #{master} probes #{da} again although its previous probe of this address was answered or timed out ({} times in a row): the sweep does not advance", a.kind, a.same_in_a_row),
                    );
                    return;
                }
            } else if da != prev {
                a.same_in_a_row = 0;
            }
            if da != prev && da != (prev + 1) % 126 {
                w.violate(self.prop, "scan.range", "sweep-skips-addresses", Some(master), format!("{:?} of #{master} probes #{da} after #{prev}", a.kind));
                return;
            }
        }
        a.last_da = Some(da);
        a.last_probe_end = Some(tx.end());
        a.completed = false;
    }

    fn on_poll(&mut self, w: &World, p: &PollInfo) {
        let master = w.stations[p.st].cfg.addr;
        for ai in 0..self.apps.len() {
            if self.apps[ai].st != p.st {
                continue;
            }
            let app = self.apps[ai].app;
            let kind = self.apps[ai].kind;
            // expected event of this poll from the call log
            let mut expected: Option<ScanEv> = None;
            if p.calls.iter().any(|c| matches!(c, AppCall::Reply { app: ca, .. } | AppCall::Timeout { app: ca, .. } if *ca == app)) {
                self.apps[ai].completed = true;
            }
            for c in p.calls {
                match c {
                    AppCall::Reply { app: ca, addr, frame } if *ca == app => {
                        // the answer of an address comes from that address (a short confirmation
                        // carries none)
                        if let Some(sa) = frame.sa() {
                            if sa & 0x7F != *addr & 0x7F {
                                w.violate(
                                    self.prop,
                                    "scan.reply",
                                    "reply-from-another-address",
                                    Some(master),
                                    format!("{:?} of #{master} is handed {} as the reply of #{addr}", kind, frame.short()),
                                );
                                return;
                            }
                        }
                        let a = usize::from(*addr & 127);
                        match kind {
                            Kind::Live => {
                                if let Frame::Data { fc, .. } = frame {
                                    if fc & 0x40 == 0 {
                                        if !self.apps[ai].known[a] {
                                            self.apps[ai].known[a] = true;
                                            expected = Some(ScanEv::LiveDiscovered { app, addr: *addr, state: (fc >> 4) & 3 });
                                        } else {
                                            expected = None;
                                        }
                                    }
                                }
                            }
                            Kind::Scan => {
                                if let Frame::Data { dsap: Some(62), ssap: Some(60), pdu, .. } = frame {
                                    if pdu.len() >= 6 {
                                        let ident = u16::from(pdu[4]) << 8 | u16::from(pdu[5]);
                                        let m = if pdu[3] == 255 { None } else { Some(pdu[3]) };
                                        if !self.apps[ai].known[a] {
                                            self.apps[ai].known[a] = true;
                                            self.apps[ai].ident[a] = ident;
                                            expected = Some(ScanEv::DpFound { app, addr: *addr, ident, master: m });
                                        } else {
                                            self.apps[ai].ident[a] = ident;
                                            expected = Some(ScanEv::DpRequery { app, addr: *addr, ident, master: m });
                                        }
                                    }
                                }
                            }
                        }
                    }
                    AppCall::Timeout { app: ca, addr } if *ca == app => {
                        // "one event per actual change observed": an address is only given up when
                        // its probe really went unanswered for a slot time
                        if let Some(end) = self.apps[ai].last_probe_end {
                            let slot = w.slot_ticks(p.st);
                            if p.t + w.us(2) + super::tol_ticks(w, p.st, 0, slot) < end + slot {
                                w.violate(
                                    self.prop,
                                    "scan.events",
                                    "given-up-before-the-slot-time-was-over",
                                    Some(master),
                                    format!(
                                        "{:?} of #{master} is told that #{addr} did not answer {} bit times after the end of the probe; the slot time is {} bit times",
                                        kind,
                                        p.t.saturating_sub(end) / crate::bus::BIT,
                                        w.stations[p.st].cfg.slot_bits
                                    ),
                                );
                                return;
                            }
                        }
                        let a = usize::from(*addr & 127);
                        if self.apps[ai].known[a] {
                            self.apps[ai].known[a] = false;
                            expected = Some(match kind {
                                Kind::Live => ScanEv::LiveLost { app, addr: *addr },
                                Kind::Scan => ScanEv::DpLost { app, addr: *addr },
                            });
                        } else {
                            expected = None;
                        }
                    }
                    _ => {}
                }
            }
            let got: Vec<&ScanEv> = p
                .scan_events
                .iter()
                .filter(|e| match e {
                    ScanEv::LiveDiscovered { app: a, .. } | ScanEv::LiveLost { app: a, .. } | ScanEv::DpFound { app: a, .. } | ScanEv::DpRequery { app: a, .. } | ScanEv::DpLost { app: a, .. } => *a == app,
                })
                .collect();
            let same = match (&expected, got.first()) {
                (None, None) => true,
                (Some(e), Some(g)) => format!("{:?}", e) == format!("{:?}", g) && got.len() == 1,
                _ => false,
            };
            if !same {
                w.violate(
                    self.prop,
                    "scan.events",
                    match (&expected, got.first()) {
                        (Some(_), None) => "event-missing",
                        (None, Some(_)) => "spurious-event",
                        _ => "wrong-event",
                    },
                    Some(master),
                    format!("{:?} of #{master}: the probes answered / timed out in this poll imply {:?}, reported {:?}", kind, expected, got),
                );
                return;
            }
            match &expected {
                Some(ScanEv::LiveDiscovered { .. }) | Some(ScanEv::DpFound { .. }) => self.n_found += 1,
                Some(ScanEv::LiveLost { .. }) | Some(ScanEv::DpLost { .. }) => self.n_lost += 1,
                Some(ScanEv::DpRequery { .. }) => self.n_requery += 1,
                None => {}
            }
            // verdict after the population has been quiet for two complete sweeps
            if !self.apps[ai].verdict_done && self.apps[ai].wraps_after_quiet >= 3 {
                self.apps[ai].verdict_done = true;
                self.n_verdicts += 1;
                let mut want: Vec<u8> = Vec::new();
                for sl in &w.slaves {
                    if sl.powered && (kind == Kind::Live || sl.cfg.dp) {
                        want.push(sl.cfg.addr);
                    }
                }
                if kind == Kind::Live {
                    for (j, s) in w.stations.iter().enumerate() {
                        if j != p.st && s.alive && s.snap.online {
                            want.push(s.cfg.addr);
                        }
                    }
                }
                want.retain(|a| *a != master && *a <= 125);
                want.sort();
                want.dedup();
                let model: Vec<u8> = (0..128u8).filter(|a| self.apps[ai].known[usize::from(*a)]).collect();
                if model != want {
                    w.violate(
                        self.prop,
                        "scan.convergence",
                        "event-set-differs-from-population",
                        Some(master),
                        format!("{:?} of #{master}: Found-minus-Lost set {} but the answering stations are {}", kind, fmt_addrs(&model), fmt_addrs(&want)),
                    );
                    return;
                }
                match (&w.stations[p.st].apps[app].kind, kind) {
                    (AppKind::Live(l), Kind::Live) => {
                        let have: Vec<u8> = l.iter_stations().collect();
                        if have != want {
                            w.violate(
                                self.prop,
                                "scan.convergence",
                                "live-list-differs-from-population",
                                Some(master),
                                format!("live list of #{master} is {} but the answering stations are {}", fmt_addrs(&have), fmt_addrs(&want)),
                            );
                            return;
                        }
                    }
                    (_, Kind::Scan) => {
                        for sl in &w.slaves {
                            if sl.powered && sl.cfg.dp && sl.cfg.addr != master && self.apps[ai].ident[usize::from(sl.cfg.addr)] != sl.cfg.ident {
                                w.violate(
                                    self.prop,
                                    "scan.convergence",
                                    "wrong-ident",
                                    Some(master),
                                    format!("scanner of #{master} reports ident {:#06x} for #{} which has {:#06x}", self.apps[ai].ident[usize::from(sl.cfg.addr)], sl.cfg.addr, sl.cfg.ident),
                                );
                                return;
                            }
                        }
                    }
                    _ => {}
                }
            }
        }
    }

    fn done(&self, _w: &World) -> bool {
        !self.apps.is_empty() && self.apps.iter().all(|a| a.verdict_done)
    }

    fn report(&self, _w: &World, s: &mut Stats) {
        s.add("scan.probes", self.apps.iter().map(|a| a.probes).sum());
        s.add("scan.found_events", self.n_found);
        s.add("scan.lost_events", self.n_lost);
        s.add("scan.requery_events", self.n_requery);
        s.add("scan.verdicts", self.n_verdicts);
    }
}
