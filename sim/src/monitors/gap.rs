//! C12 — GAP maintenance (R4) and truthfulness of FDL status replies (R3).

use super::{token_lost_timeout_ticks, tol_ticks};
use crate::bus::BIT;
use crate::phy::RxVerdict;
use crate::wire::{self, Fc, Frame};
use crate::world::{is_status_reply, Monitor, PollInfo, StationEv, Stats, World};

fn in_gap(ts: u8, ns: u8, hsa: u8, a: u8) -> bool {
    if a >= hsa || a == ts {
        return false;
    }
    if ns > ts {
        a > ts && a < ns
    } else if ns < ts {
        a > ts || a < ns
    } else {
        true
    }
}

fn gap_size(ts: u8, ns: u8, hsa: u8) -> u32 {
    (0..hsa).filter(|a| in_gap(ts, ns, hsa, *a)).count() as u32
}

/// R3: what a listening station has witnessed.
#[derive(Default, Clone)]
struct Witness {
    /// Source addresses of the current (incomplete) rotation.
    cur: Vec<u8>,
    started: bool,
    /// Completed rotations (sets of token senders), oldest first; only the last few are kept.
    rotations: Vec<Vec<u8>>,
    /// The same rotations as exact pass sequences (repeated tokens included): the sufficient
    /// clause only binds when nothing at all differed.
    cur_passes: Vec<(u8, u8)>,
    pass_rotations: Vec<Vec<(u8, u8)>>,
    last_pass: Option<(u8, u8)>,
    ever_in_ring: bool,
}

impl Witness {
    fn reset(&mut self) {
        *self = Witness::default();
    }
    fn pass(&mut self, sa: u8, da: u8) {
        if sa > 125 || da > 125 {
            return;
        }
        if self.started {
            if !self.cur.contains(&sa) {
                self.cur.push(sa);
            }
            self.cur_passes.push((sa, da));
        }
        // a repeated pass (the sender retries) that closes a rotation closes it as a copy of the
        // previous one: this is how the station's own verification reads it
        let repeated = self.last_pass == Some((sa, da));
        self.last_pass = Some((sa, da));
        if da <= sa {
            if self.started {
                self.pass_rotations.push(std::mem::take(&mut self.cur_passes));
                if self.pass_rotations.len() > 4 {
                    self.pass_rotations.remove(0);
                }
                let mut r = std::mem::take(&mut self.cur);
                if repeated {
                    if let Some(prev) = self.rotations.last() {
                        r = prev.clone();
                    }
                }
                r.sort();
                self.rotations.push(r);
                if self.rotations.len() > 4 {
                    self.rotations.remove(0);
                }
            }
            self.started = true;
            self.cur.clear();
            self.cur_passes.clear();
        }
    }
    /// Number of identical complete rotations at the end of the history.
    fn identical_tail(&self) -> usize {
        let Some(last) = self.rotations.last() else { return 0 };
        self.rotations.iter().rev().take_while(|r| *r == last).count()
    }
    fn identical_tail_strict(&self, ts: u8) -> usize {
        let Some(last) = self.pass_rotations.last() else { return 0 };
        // a ring that passes the token to the listener itself (which never forwards it) is not a
        // rotation the listener can verify
        if last.iter().any(|(sa, da)| *da == ts || *sa == ts) {
            return 0;
        }
        self.pass_rotations.iter().rev().take_while(|r| *r == last).count()
    }
    fn predecessor_of(&self, ts: u8) -> Option<u8> {
        let last = self.rotations.last()?;
        last.iter().rev().find(|a| **a < ts).or_else(|| last.iter().next_back()).copied()
    }
}

/// R3 (operational form): a listening station's list of active stations is complete once it
/// has followed one token rotation to learn the members and a second one in which every pass
/// confirmed what it had learnt ("two identical token rotations"), pass by pass.
#[derive(Clone, Default)]
struct LasModel {
    /// 0 waiting for the first wrap-around, 1 discovery, 2 verification, 3 complete
    phase: u8,
    las: u128,
}

impl LasModel {
    fn new(ts: u8) -> Self {
        LasModel { phase: 0, las: 1u128 << (ts & 127) }
    }
    fn learn(&mut self, sa: u8, da: u8) {
        for a in 0..128u8 {
            let in_span = if da > sa { a >= sa && a < da } else { a >= sa || a < da };
            if in_span {
                self.las &= !(1u128 << a);
            }
        }
        self.las |= 1u128 << sa;
    }
    fn confirms(&self, sa: u8, da: u8) -> bool {
        let act = |a: u8| self.las >> a & 1 == 1;
        if !act(sa) || !act(da) {
            return false;
        }
        (0..128u8).all(|a| {
            let between = if da > sa { a > sa && a < da } else { a > sa || a < da };
            !(between && act(a))
        })
    }
    fn pass(&mut self, sa: u8, da: u8) {
        if sa > 125 || da > 125 {
            return;
        }
        let wrap = da <= sa;
        match self.phase {
            0 => {
                if wrap {
                    self.phase = 1;
                }
            }
            1 => {
                self.learn(sa, da);
                if wrap {
                    self.phase = 2;
                }
            }
            2 => {
                if !self.confirms(sa, da) {
                    self.learn(sa, da);
                    self.phase = 1;
                } else if wrap {
                    self.phase = 3;
                }
            }
            _ => self.learn(sa, da),
        }
    }
}

struct St {
    /// Own status requests in the current token visit.
    polls_in_visit: u32,
    claim_phase: bool,
    /// Token telegrams sent since the claim started (two claim tokens, then the post-scan pass).
    claim_tokens: u8,
    /// Addresses polled during the current post-claim scan; None once the scan was disturbed.
    scan_polled: Option<Vec<u8>>,
    /// Visits (token passes by this station) since the epoch started.
    visit: u64,
    epoch_start_visit: u64,
    epoch_ns: Option<u8>,
    last_polled: Vec<u64>,
    /// Quiet visits since the last visit with a poll; None until the first sweep ended.
    quiet_visits: Option<u32>,
    polled_in_prev_visit: bool,
    /// Address polled whose reply is awaited, and the tx index of the request.
    awaiting: Option<(u8, usize)>,
    /// A ready/in-ring reply was consumed: the next token must go there.
    next_token_to: Option<u8>,
    witness: Witness,
    /// Last status request addressed to this station that it consumed as last telegram.
    asked_by: Option<(u8, usize)>,
    /// Deadline (ticks) for answering a status request, requester.
    must_reply_by: Option<(u64, u8)>,
    holding: bool,
    /// is_in_ring() before the poll that is being processed.
    pre_in_ring: bool,
    /// The station consumed a token addressed to it (or passed the token to itself) and has not
    /// passed it on since: its next token telegram ends a visit; without it a self-addressed
    /// token starts a claim and a token to somebody else is a retry.
    has_token: bool,
    /// A token addressed to this station appeared on the bus since its own last token telegram.
    token_to_me_since_pass: bool,
    /// The station's last token telegram was addressed to itself.
    last_pass_to_self: bool,
    /// Poll time of the last valid telegram consumed / end of the last own transmission.
    last_valid_activity: u64,
    /// Since it last went online the station has witnessed two identical token rotations or has
    /// claimed the token: only then can it be a member of the ring ("not ready until ...").
    verified: bool,
    las_model: LasModel,
    /// Last GAP poll outside a claim scan: (address, visit number).
    last_gap_target: Option<(u8, u64)>,
}

pub struct GapMonitor {
    prop: &'static str,
    st: Vec<St>,
    holder: Option<u8>,
    last_tx_sender: Option<usize>,
    pub n_polls: u64,
    pub n_scan_polls: u64,
    pub n_sweeps: u64,
    pub n_discovered: u64,
    pub n_replies: [u64; 4],
    pub n_reply_deadlines: u64,
    pub n_liveness_checks: u64,
    pub n_listed: u64,
}

impl GapMonitor {
    pub fn new(prop: &'static str, w: &World) -> Self {
        GapMonitor {
            prop,
            st: w
                .stations
                .iter()
                .map(|_| St {
                    polls_in_visit: 0,
                    claim_phase: false,
                    claim_tokens: 0,
                    scan_polled: None,
                    visit: 0,
                    epoch_start_visit: 0,
                    epoch_ns: None,
                    last_polled: vec![0; 128],
                    quiet_visits: None,
                    polled_in_prev_visit: false,
                    awaiting: None,
                    next_token_to: None,
                    witness: Witness::default(),
                    asked_by: None,
                    must_reply_by: None,
                    holding: false,
                    pre_in_ring: false,
                    has_token: false,
                    token_to_me_since_pass: false,
                    last_pass_to_self: false,
                    last_valid_activity: 0,
                    verified: false,
                    las_model: LasModel::default(),
                    last_gap_target: None,
                })
                .collect(),
            holder: None,
            last_tx_sender: None,
            n_polls: 0,
            n_scan_polls: 0,
            n_sweeps: 0,
            n_discovered: 0,
            n_replies: [0; 4],
            n_reply_deadlines: 0,
            n_liveness_checks: 0,
            n_listed: 0,
        }
    }

    /// Something irregular happened around station `s` (collision, garbage, token offered while
    /// holding): the visit / sweep accounting restarts; the rules are judged in calm periods.
    fn irregular(s: &mut St) {
        s.epoch_ns = None;
        s.quiet_visits = None;
        s.polled_in_prev_visit = false;
        s.polls_in_visit = 0;
        s.next_token_to = None;
        s.scan_polled = None;
        s.last_gap_target = None;
    }

    fn new_epoch(s: &mut St, ns: u8) {
        s.epoch_ns = Some(ns);
        s.epoch_start_visit = s.visit;
        s.quiet_visits = None;
        s.polled_in_prev_visit = false;
    }
}

impl Monitor for GapMonitor {
    fn name(&self) -> &'static str {
        "gap"
    }

    fn on_station(&mut self, _w: &World, st: usize, ev: &StationEv) {
        if !matches!(ev, StationEv::Stall(_) | StationEv::ClockJump(_)) {
            let s = &mut self.st[st];
            s.polls_in_visit = 0;
            s.claim_phase = false;
            s.epoch_ns = None;
            s.quiet_visits = None;
            s.awaiting = None;
            s.next_token_to = None;
            s.witness.reset();
            s.last_gap_target = None;
            s.verified = false;
            s.las_model = LasModel::new(_w.stations[st].cfg.addr);
            s.asked_by = None;
            s.must_reply_by = None;
            s.holding = false;
            s.has_token = false;
            s.token_to_me_since_pass = false;
            s.last_pass_to_self = false;
            s.last_valid_activity = _w.now;
        }
    }

    fn on_poll(&mut self, w: &World, p: &PollInfo) {
        let i = p.st;
        let ts = w.stations[i].cfg.addr;
        self.st[i].pre_in_ring = p.pre.in_ring;
        // (in the ring before this poll: the poll that answers 'ready' already shows the station
        // as a member afterwards)
        if p.pre.in_ring {
            self.st[i].witness.ever_in_ring = true;
        }
        // A station enters the list of active stations only by being heard: as the sender of a
        // token, or as the source of a 'master' status reply to this station (GAP poll).
        if p.pre.online && p.post.online {
            let new = p.post.las & !p.pre.las & !(1u128 << ts);
            if new != 0 {
                for x in 0..127u8 {
                    if new & (1u128 << x) == 0 {
                        continue;
                    }
                    let heard = p.rx.iter().any(|r| match &r.verdict {
                        RxVerdict::Consumed { frame: Frame::Token { sa, .. }, .. } => *sa == x,
                        RxVerdict::Consumed { frame: Frame::Data { sa, da, fc, .. }, .. } => {
                            *sa == x && *da == ts && matches!(wire::fc_decode(*fc), Fc::Response { state, status: 0 } if state >= 2)
                        }
                        _ => false,
                    });
                    self.n_listed += 1;
                    if !heard {
                        w.violate(
                            self.prop,
                            "gap.discovery",
                            "station-listed-without-being-heard",
                            Some(ts),
                            format!(
                                "#{ts} entered #{x} into its list of active stations (NS {} -> {}) in a poll in which it received neither a token sent by #{x} nor a 'master' status reply from #{x} ({:?})",
                                p.pre.ns,
                                p.post.ns,
                                p.rx.iter().map(|r| format!("{:?}", r.verdict)).collect::<Vec<_>>()
                            ),
                        );
                        return;
                    }
                }
            }
        }
        // deadline for answering a status request
        if let Some((by, from)) = self.st[i].must_reply_by {
            if p.t > by {
                w.violate(
                    self.prop,
                    "status.answer",
                    "status-request-not-answered",
                    Some(ts),
                    format!("#{ts} was asked for its FDL status by #{from}, the bus stayed silent, but it did not answer within the slot time"),
                );
                self.st[i].must_reply_by = None;
                return;
            }
        }
        for r in p.rx {
            let RxVerdict::Consumed { frame, src, last, .. } = &r.verdict else {
                self.st[i].asked_by = None;
                Self::irregular(&mut self.st[i]);
                continue;
            };
            self.st[i].last_valid_activity = p.t;
            // R3: token passes witnessed while not in the ring
            if let Frame::Token { da, sa } = frame {
                if !p.pre.in_ring && *sa != ts {
                    self.st[i].witness.pass(*sa, *da);
                    self.st[i].las_model.pass(*sa, *da);
                    if self.st[i].las_model.phase == 3 {
                        self.st[i].verified = true;
                    }
                }
                if *da == ts && *sa != ts && *last && p.pre.in_ring {
                    // a new token visit may begin (the token may also hide inside a transmission
                    // that is not a single frame on the wire)
                    if self.st[i].has_token || self.st[i].holding {
                        Self::irregular(&mut self.st[i]);
                    }
                    self.st[i].has_token = true;
                    self.st[i].token_to_me_since_pass = true;
                    self.st[i].polls_in_visit = 0;
                }
            }
            // anything but the answer of the polled address disturbs a post-claim scan
            if self.st[i].claim_phase {
                // (the answer: a status reply, alone in the buffer, transmitted after the request)
                let ok = matches!((self.st[i].awaiting, frame), (Some((polled, req)), Frame::Data { da, sa, fc, .. })
                    if *sa == polled && *da == ts && fc & 0x40 == 0 && is_status_reply(frame) && *last && p.rx.len() == 1 && matches!(src, Some(x) if *x > req));
                if !ok {
                    self.st[i].scan_polled = None;
                }
            }
            // reply to our own GAP poll
            if let Some((polled, _)) = self.st[i].awaiting {
                if let Frame::Data { da, sa, fc, .. } = frame {
                    if *sa == polled && *da == ts {
                        if let Fc::Response { state, status } = wire::fc_decode(*fc) {
                            if status == 0 && (state == 2 || state == 3) {
                                self.st[i].next_token_to = Some(polled);
                                self.n_discovered += 1;
                            }
                        }
                    }
                }
                self.st[i].awaiting = None;
            }
            // status request addressed to us
            if frame.is_fdl_status_request() && frame.da() == Some(ts) && *last {
                // (a request assembled from bytes of several transmissions is still a request the
                // station may answer; only the obligation needs the single intact transmission)
                if let (Some(sa), None) = (frame.sa(), src) {
                    self.st[i].asked_by = Some((sa, usize::MAX));
                }
                if let (Some(sa), Some(x)) = (frame.sa(), src) {
                    self.st[i].asked_by = Some((sa, *x));
                    // obligation to answer: the request is the last thing on the bus and the
                    // station is not the token holder
                    let bus = w.bus.borrow();
                    // (only when it arrived alone: telegrams of one batch may change the station's
                    // state, e.g. an address collision makes it leave the ring and drop the rest)
                    if p.rx.len() == 1 && *x + 1 == bus.txs.len() && bus.txs[*x].intact() && sa != ts && !self.st[i].has_token && self.holder != Some(ts) && p.txs.is_empty() {
                        let slot = w.slot_ticks(i);
                        self.st[i].must_reply_by = Some((bus.txs[*x].end() + slot, sa));
                        self.n_reply_deadlines += 1;
                    }
                }
            } else {
                self.st[i].asked_by = None;
            }
        }
        if !p.pre.in_ring && p.post.in_ring {
            // joined (or claimed)
            self.st[i].epoch_ns = None;
        }
        if p.pre.in_ring && !p.post.in_ring {
            self.st[i].witness.reset();
            self.st[i].holding = false;
            self.st[i].next_token_to = None;
            self.st[i].awaiting = None;
        }
    }

    fn on_tx(&mut self, w: &World, idx: usize) {
        let bus = w.bus.borrow();
        let tx = &bus.txs[idx];
        // "followed by silence": any transmission by somebody else cancels pending obligations
        for s in self.st.iter_mut() {
            s.must_reply_by = None;
            if tx.collided {
                Self::irregular(s);
            }
        }
        let prev_sender = self.last_tx_sender;
        self.last_tx_sender = Some(tx.sender);
        let _ = prev_sender;
        let Some(frame) = tx.frame.as_ref() else { return };
        if let Frame::Token { da, sa } = frame {
            if tx.real {
                let i = tx.sender;
                let ts = w.stations[i].cfg.addr;
                if *sa == ts {
                    let snap_ns = w.stations[i].snap.ns;
                    let hsa = w.stations[i].cfg.hsa;
                    let gap = w.stations[i].cfg.gap;
                    let timeout = token_lost_timeout_ticks(w, i);
                    let tol = tol_ticks(w, i, 2, timeout);
                    let s = &mut self.st[i];
                    s.holding = *da == ts;
                    s.has_token = *da == ts;
                    // A self-addressed token after the station's own silence time-out starts a claim
                    // (two claim tokens, the GAP scan, then the first regular pass).
                    let silence = tx.start.saturating_sub(s.last_valid_activity);
                    if *da == ts && silence + tol >= timeout {
                        s.verified = true;
                        s.last_gap_target = None;
                        s.claim_phase = true;
                        s.claim_tokens = 0;
                        s.epoch_ns = None;
                        s.polls_in_visit = 0;
                        // The scan obligation needs a real claim: true silence on the wire (garbage
                        // is activity too; the lenient rule above only excuses, O3).
                        let last_any = bus.txs[..idx].iter().map(|t| t.end()).max().unwrap_or(0);
                        s.scan_polled = if tx.start.saturating_sub(last_any) + tol >= timeout { Some(Vec::new()) } else { None };
                    }
                    if s.claim_phase {
                        s.claim_tokens += 1;
                    }
                    // A token to somebody else with no token for this station on the bus since its
                    // previous token telegram repeats / re-addresses that pass: not a new visit.
                    // (A pass to itself hands the station the token again without any telegram from
                    // somebody else.)
                    let retry = *da != ts && !s.token_to_me_since_pass && !s.last_pass_to_self && !s.claim_phase && s.visit > 0;
                    s.token_to_me_since_pass = false;
                    s.last_pass_to_self = *da == ts;
                    s.last_valid_activity = tx.end();
                    // a discovered master gets the next token
                    if let Some(want) = s.next_token_to.take() {
                        if *da != want {
                            w.violate(
                                self.prop,
                                "gap.discovery",
                                "discovered-master-not-made-successor",
                                Some(ts),
                                format!("#{want} answered the GAP poll of #{ts} as a ready master but the next token goes to #{da}"),
                            );
                            return;
                        }
                    }
                    if retry {
                        s.polls_in_visit = 0;
                        s.awaiting = None;
                        self.holder = Some(*da);
                        return;
                    }
                    if !s.claim_phase {
                        // the visit that ends with this pass
                        s.visit += 1;
                        if s.epoch_ns != Some(snap_ns) {
                            Self::new_epoch(s, snap_ns);
                        }
                        let polled = s.polls_in_visit > 0;
                        if polled {
                            if !s.polled_in_prev_visit {
                                // a new sweep starts: enough quiet visits since the last one?
                                if let Some(q) = s.quiet_visits {
                                    self.n_sweeps += 1;
                                    if q < u32::from(gap) {
                                        w.violate(
                                            self.prop,
                                            "gap.wait",
                                            "gap-update-factor-not-honoured",
                                            Some(ts),
                                            format!("#{ts} starts a new GAP sweep after only {q} token visits without a poll; the GAP update factor is {gap}"),
                                        );
                                        return;
                                    }
                                }
                            }
                            s.quiet_visits = Some(0);
                        } else if let Some(q) = s.quiet_visits.as_mut() {
                            *q += 1;
                        } else if s.visit > s.epoch_start_visit + 1 {
                            // no poll seen yet in this epoch: counts as quiet time too
                        }
                        s.polled_in_prev_visit = polled;
                        // every GAP address polled within gap size + G + 3 visits
                        let size = gap_size(ts, snap_ns, hsa);
                        let limit = u64::from(size) + u64::from(gap) + 3;
                        if size > 0 && s.visit >= s.epoch_start_visit + limit {
                            self.n_liveness_checks += 1;
                            for a in 0..hsa {
                                if in_gap(ts, snap_ns, hsa, a) {
                                    let lastp = s.last_polled[usize::from(a)].max(s.epoch_start_visit);
                                    if s.visit - lastp > limit {
                                        w.violate(
                                            self.prop,
                                            "gap.coverage",
                                            "gap-address-not-polled",
                                            Some(ts),
                                            format!(
                                                "#{ts} (NS #{snap_ns}, HSA {hsa}) has not polled GAP address #{a} for {} token visits; GAP size {size} + update factor {gap} + 3 = {limit}",
                                                s.visit - lastp
                                            ),
                                        );
                                        return;
                                    }
                                }
                            }
                        }
                    }
                    if s.claim_phase && s.claim_tokens >= 3 {
                        // the pass after the post-claim scan: the whole GAP must have been polled
                        if let Some(polled) = s.scan_polled.take() {
                            if let Some(missing) = (0..hsa).find(|a| in_gap(ts, snap_ns, hsa, *a) && !polled.contains(a)) {
                                w.violate(
                                    self.prop,
                                    "gap.claim-scan",
                                    "post-claim-scan-incomplete",
                                    Some(ts),
                                    format!(
                                        "#{ts} claimed the token and passes it on (NS #{snap_ns}, HSA {hsa}) after polling only {:?}; GAP address #{missing} was not polled",
                                        polled
                                    ),
                                );
                                return;
                            }
                        }
                    }
                    if *da != ts || s.claim_tokens >= 3 {
                        // normal operation from here on
                        s.claim_phase = false;
                        s.scan_polled = None;
                    }
                    s.polls_in_visit = 0;
                    s.awaiting = None;
                }
            }
            self.holder = Some(*da);
            if let Some(j) = w.station_by_addr(*da) {
                if !(tx.real && tx.sender == j) {
                    self.st[j].holding = false;
                    if !tx.collided {
                        // a new token visit may begin
                        if self.st[j].has_token {
                            Self::irregular(&mut self.st[j]);
                        }
                        self.st[j].token_to_me_since_pass = true;
                        self.st[j].polls_in_visit = 0;
                    }
                }
            }
            return;
        }
        if !tx.real {
            return;
        }
        let i = tx.sender;
        let ts = w.stations[i].cfg.addr;
        self.st[i].last_valid_activity = tx.end();
        // status replies of real stations
        if is_status_reply(frame) {
            let Frame::Data { da, fc, .. } = frame else { return };
            let Fc::Response { state, status } = wire::fc_decode(*fc) else { return };
            let s = &mut self.st[i];
            s.must_reply_by = None;
            let Some((asker, _req_tx)) = s.asked_by.take() else {
                w.violate(
                    self.prop,
                    "status.answer",
                    "status-reply-without-request",
                    Some(ts),
                    format!("#{ts} sends {} although the last telegram it consumed was not a status request addressed to it", frame.short()),
                );
                return;
            };
            if asker != *da {
                w.violate(self.prop, "status.answer", "status-reply-to-wrong-station", Some(ts), format!("#{ts} was asked by #{asker} but answers #{da}"));
                return;
            }
            self.n_replies[usize::from(state & 3)] += 1;
            let snap = &w.stations[i].snap;
            if status != 0 {
                w.violate(self.prop, "status.truth", "status-reply-not-ok", Some(ts), format!("#{ts} answers a status request with status {status}"));
                return;
            }
            match state {
                3 => {
                    // "in ring" only if it is in the ring
                    if !s.pre_in_ring {
                        w.violate(self.prop, "status.truth", "in-ring-while-listening", Some(ts), format!("#{ts} reports 'master in ring' to #{da} but is_in_ring() is false"));
                    } else if !s.verified {
                        w.violate(
                            self.prop,
                            "status.truth",
                            "in-ring-before-two-identical-rotations",
                            Some(ts),
                            format!(
                                "#{ts} reports 'master in ring' to #{da}, but since it last went online it has neither claimed the token nor witnessed two identical token rotations (witnessed: {:?})",
                                s.witness.rotations
                            ),
                        );
                    }
                }
                2 => {
                    if !s.witness.ever_in_ring {
                        // two identical rotations witnessed at some point since it went online (the
                        // list is kept up to date pass by pass afterwards), or the token claimed
                        if !s.verified {
                            w.violate(
                                self.prop,
                                "status.truth",
                                "ready-before-two-identical-rotations",
                                Some(ts),
                                format!(
                                    "#{ts} reports 'ready to enter the ring' to #{da} although it has not witnessed two identical complete token rotations since it went online (last rotations: {:?})",
                                    s.witness.rotations
                                ),
                            );
                            return;
                        }
                        // only to the predecessor it has registered
                        if snap.ps != *da {
                            w.violate(
                                self.prop,
                                "status.truth",
                                "ready-to-non-predecessor",
                                Some(ts),
                                format!("#{ts} reports 'ready' to #{da} but its registered predecessor is #{}", snap.ps),
                            );
                            return;
                        }
                    }
                }
                1 => {
                    // sufficient clauses
                    if s.pre_in_ring {
                        w.violate(self.prop, "status.truth", "not-ready-while-in-ring", Some(ts), format!("#{ts} is in the ring but reports 'not ready' to #{da}"));
                        return;
                    }
                    if s.witness.identical_tail_strict(ts) >= 3 && s.witness.predecessor_of(ts) == Some(*da) && !s.witness.ever_in_ring {
                        w.violate(
                            self.prop,
                            "status.truth",
                            "not-ready-after-three-identical-rotations",
                            Some(ts),
                            format!("#{ts} has witnessed {} identical rotations {:?} and is asked by its predecessor #{da}, yet reports 'not ready'", s.witness.identical_tail(), s.witness.rotations.last()),
                        );
                        return;
                    }
                }
                _ => {
                    w.violate(self.prop, "status.truth", "slave-state-reported", Some(ts), format!("#{ts} reports station type 'slave'"));
                }
            }
            return;
        }
        // own status requests (GAP polls): not sent by an application
        if frame.is_fdl_status_request() && w.cur_tx_app.is_none() {
            let Some(target) = frame.da() else { return };
            let snap = &w.stations[i].snap;
            let hsa = w.stations[i].cfg.hsa;
            let s = &mut self.st[i];
            self.n_polls += 1;
            if !in_gap(ts, snap.ns, hsa, target) {
                w.violate(
                    self.prop,
                    "gap.target",
                    "poll-outside-gap",
                    Some(ts),
                    format!("#{ts} (NS #{}, HSA {hsa}) sends a GAP poll to #{target}, which is not strictly between TS and NS", snap.ns),
                );
                return;
            }
            if s.claim_phase {
                self.n_scan_polls += 1;
                if let Some(v) = s.scan_polled.as_mut() {
                    v.push(target);
                }
            } else {
                // sweep order: the next poll continues behind the previous one; starting over at
                // TS+1 is only possible after the pause of G token visits (the station never
                // abandons a sweep half-way just because its successor changed)
                let gapf = u64::from(w.stations[i].cfg.gap);
                let rank = |x: u8| (u16::from(x) + u16::from(hsa) - u16::from(ts) - 1) % u16::from(hsa.max(1));
                if let Some((prev, pv)) = s.last_gap_target {
                    if prev < hsa && target < hsa && rank(target) <= rank(prev) && (s.visit + 1).saturating_sub(pv) <= gapf {
                        w.violate(
                            self.prop,
                            "gap.order",
                            "sweep-restarted-without-pause",
                            Some(ts),
                            format!(
                                "#{ts} (NS #{}, HSA {hsa}, gap factor {gapf}) polled #{prev} and only {} token visit(s) later polls #{target}: the sweep starts over without having paused",
                                snap.ns,
                                (s.visit + 1).saturating_sub(pv)
                            ),
                        );
                        return;
                    }
                }
                s.last_gap_target = Some((target, s.visit + 1));
                s.polls_in_visit += 1;
                if s.polls_in_visit > 1 {
                    w.violate(
                        self.prop,
                        "gap.rate",
                        "more-than-one-poll-per-visit",
                        Some(ts),
                        format!("#{ts} sends a second GAP poll (to #{target}) in one token visit"),
                    );
                    return;
                }
            }
            s.last_polled[usize::from(target & 127)] = s.visit + 1;
            s.awaiting = Some((target, idx));
        }
        let _ = BIT;
    }

    fn observer(&self) -> bool {
        true
    }

    fn report(&self, _w: &World, s: &mut Stats) {
        s.add("gap.polls", self.n_polls);
        s.add("gap.post_claim_scan_polls", self.n_scan_polls);
        s.add("gap.sweeps_with_wait_checked", self.n_sweeps);
        s.add("probe.gap_poll_discovered_a_master", self.n_discovered);
        s.add("probe.status_reply_not_ready", self.n_replies[1]);
        s.add("probe.status_reply_ready", self.n_replies[2]);
        s.add("probe.status_reply_in_ring", self.n_replies[3]);
        s.add("status.answer_deadlines", self.n_reply_deadlines);
        s.add("gap.coverage_checks", self.n_liveness_checks);
        s.add("gap.stations_listed_with_cause", self.n_listed);
    }
}
