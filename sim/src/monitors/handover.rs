//! C11 — token hand-over: acceptance rule, slot supervision, retries, successor removal.
//!
//! Acceptance is observed as "the station transmits although nobody asked it" (DESIGN §6 C11).

use super::{last_visible_activity, token_lost_timeout_ticks, tol_ticks};
use crate::bus::BIT;
use crate::phy::RxVerdict;
use crate::wire::Frame;
use crate::world::{Monitor, PollInfo, StationEv, Stats, World};

#[derive(Clone, Debug, PartialEq)]
enum Hs {
    /// Not holding the token (listening or idle in the ring).
    NotHolding,
    /// Holding: may transmit requests, GAP polls, tokens.
    Holding,
    /// Passed the token to `to`; `attempt` transmissions so far, the last one ended at `end`.
    Passed { to: u8, attempt: u8, end: u64, heard: bool, tx: usize },
}

/// The most recent token offered to the station, as far as it is still "the last thing it
/// consumed".
/// R3: the list of active stations after a witnessed token pass (LAS valid): the span between
/// sender and receiver holds no active station, the sender is active.
fn model_witness(mut las: u128, sa: u8, da: u8) -> u128 {
    for a in 0..127u8 {
        let in_span = if da > sa { a >= sa && a < da } else { a >= sa || a < da };
        if in_span {
            las &= !(1u128 << a);
        }
    }
    las | (1u128 << sa)
}

/// R3: the registered predecessor is the next lower active address, cyclically.
fn model_ps(las: u128, ts: u8) -> u8 {
    (0..ts).rev().find(|a| las >> a & 1 == 1).or_else(|| (0..127u8).rev().find(|a| las >> a & 1 == 1)).unwrap_or(ts)
}

#[derive(Clone, Debug)]
struct Offer {
    from: u8,
    /// Registered predecessor before / after the poll that consumed the token.
    ps_pre: u8,
    ps_post: u8,
    /// Registered predecessor at the moment the token was handled, when it was one of several
    /// telegrams consumed in one poll (R3 applied to the telegrams before it).
    ps_model: Option<u8>,
    /// Nothing else was received in that poll.
    alone: bool,
    in_ring_pre: bool,
    /// `from` had offered the token before (since the station last became idle).
    offered_before: bool,
    last_in_buffer: bool,
    /// End of the poll (ticks) in which it was consumed.
    at: u64,
    /// Wire end of the token telegram if known.
    wire_end: Option<u64>,
}

struct St {
    hs: Hs,
    offer: Option<Offer>,
    /// Stations that offered the token since the station last became idle.
    offers: Vec<u8>,
    /// Obligation: must start transmitting by this time (token from the registered predecessor).
    must_tx_by: Option<(u64, u8)>,
    online_at: u64,
    /// List of active stations before the poll being processed.
    pre_las: u128,
    /// Bytes shown to the station by its PHY since its last token telegram.
    bytes_since_pass: usize,
    /// ... or undecodable data (also older data still in its buffer) was dropped since then.
    garbage_since_pass: bool,
    retry_overdue_reported: bool,
    /// Time of the last poll in which new received bytes became visible to the station.
    last_bytes_poll: u64,
    /// Destination of the station's last request that expects a reply (and whether it was a GAP
    /// poll), until something is consumed.
    awaiting: Option<(u8, bool)>,
    /// Time of the last poll in which the station consumed a valid telegram, or end of its own
    /// last transmission (garbage is ignored: lenient for the claim rule, see DESIGN 6 C11).
    last_valid_activity: u64,
}

pub struct HandoverMonitor {
    prop: &'static str,
    st: Vec<St>,
    prev_end: u64,
    pub n_accept_ps: u64,
    pub n_accept_second_offer: u64,
    pub n_accept_in_batch: u64,
    pub n_backoffs: u64,
    pub n_first_offer_refused: u64,
    pub n_claims: u64,
    pub n_retry2: u64,
    pub n_retry3: u64,
    pub n_removed: u64,
    pub n_pass_heard: u64,
    pub n_pass_to_self: u64,
    pub n_must_tx: u64,
    pub max_reaction_ratio: f64,
}

fn succ_in(set: u128, a: u8) -> u8 {
    for k in 1..=128u32 {
        let x = (u32::from(a & 127) + k) % 128;
        if set >> x & 1 == 1 {
            return x as u8;
        }
    }
    a
}

impl HandoverMonitor {
    pub fn new(prop: &'static str, w: &World) -> Self {
        HandoverMonitor {
            prop,
            st: w
                .stations
                .iter()
                .map(|_| St {
                    hs: Hs::NotHolding,
                    offer: None,
                    offers: Vec::new(),
                    must_tx_by: None,
                    online_at: 0,
                    pre_las: 0,
                    bytes_since_pass: 0,
                    garbage_since_pass: false,
                    retry_overdue_reported: false,
                    last_bytes_poll: 0,
                    awaiting: None,
                    last_valid_activity: 0,
                })
                .collect(),
            prev_end: 0,
            n_accept_ps: 0,
            n_accept_second_offer: 0,
            n_accept_in_batch: 0,
            n_backoffs: 0,
            n_first_offer_refused: 0,
            n_claims: 0,
            n_retry2: 0,
            n_retry3: 0,
            n_removed: 0,
            n_pass_heard: 0,
            n_pass_to_self: 0,
            n_must_tx: 0,
            max_reaction_ratio: 0.0,
        }
    }

    fn reaction_budget(w: &World, i: usize) -> u64 {
        let c = &w.stations[i].cfg;
        w.us(3 * c.p_max_us + 2 * c.rx_chunk_us + c.tx_lag_us + 2) + 33 * BIT
    }
}

impl Monitor for HandoverMonitor {
    fn name(&self) -> &'static str {
        "handover"
    }

    fn on_station(&mut self, w: &World, st: usize, ev: &StationEv) {
        match ev {
            StationEv::Online | StationEv::Restart => {
                let s = &mut self.st[st];
                s.hs = Hs::NotHolding;
                s.offer = None;
                s.offers.clear();
                s.must_tx_by = None;
                s.online_at = w.now;
            }
            StationEv::Offline | StationEv::Crash | StationEv::SelfOffline | StationEv::Stall(_) | StationEv::ClockJump(_) => {
                let s = &mut self.st[st];
                s.hs = Hs::NotHolding;
                s.offer = None;
                s.offers.clear();
                s.must_tx_by = None;
            }
        }
    }

    fn on_poll(&mut self, w: &World, p: &PollInfo) {
        let i = p.st;
        let ts = w.stations[i].cfg.addr;
        self.st[i].pre_las = p.pre.las;
        // After an unanswered pass (not a single byte reached the station) the station must act
        // when the slot time is over: repeat the pass, or remove the successor and pass on.
        if let Hs::Passed { to, end, tx: pass_tx, .. } = self.st[i].hs {
            let cfg = &w.stations[i].cfg;
            let slot = w.slot_ticks(i);
            let by = end + slot + w.us(4 * cfg.p_max_us + cfg.rx_chunk_us + cfg.tx_lag_us + 4) + tol_ticks(w, i, 2, slot);
            if p.t > by && p.txs.is_empty() && self.st[i].bytes_since_pass == 0 && !self.st[i].garbage_since_pass && p.new_rx_bytes == 0 && p.rx.is_empty() && p.post.in_ring && p.post.online {
                // (nothing at all on the wire either: a transmission the station could not see,
                // e.g. during its own, still makes it wait)
                let bus = w.bus.borrow();
                let quiet = bus.txs.len() == pass_tx + 1;
                if quiet && !self.st[i].retry_overdue_reported {
                    self.st[i].retry_overdue_reported = true;
                    w.violate(
                        self.prop,
                        "handover.retry",
                        "unanswered-pass-not-repeated",
                        Some(ts),
                        format!(
                            "#{ts} passed the token to #{to}, the bus stayed completely silent for {} bit times (slot time {} bit times), and the station neither repeats the pass nor passes on",
                            (p.t - end) / BIT,
                            cfg.slot_bits
                        ),
                    );
                    return;
                }
            }
        }
        if p.new_rx_bytes > 0 {
            self.st[i].last_bytes_poll = p.t;
        }
        let garbage_before = self.st[i].garbage_since_pass && self.st[i].bytes_since_pass > 0;
        self.st[i].bytes_since_pass += p.new_rx_bytes;
        if p.new_rx_bytes > 0 || p.rx.iter().any(|r| !matches!(r.verdict, RxVerdict::Consumed { .. })) {
            self.st[i].garbage_since_pass = true;
        }
        // obligation to transmit after a token from the registered predecessor
        if let Some((by, from)) = self.st[i].must_tx_by {
            if p.t > by && p.txs.is_empty() {
                w.violate(
                    self.prop,
                    "handover.accept",
                    "token-from-predecessor-not-used",
                    Some(ts),
                    format!("#{ts} got the token from its registered predecessor #{from} and the bus stayed silent, but it did not start transmitting within 3 poll periods + 33 bit"),
                );
                self.st[i].must_tx_by = None;
                return;
            }
        }
        // R3 inside one receive batch: the list of active stations (and with it the registered
        // predecessor) changes with every witnessed pass, also between two telegrams of one poll
        let mut las_model: u128 = p.pre.las;
        let batch_clean = p.rx.len() > 1 && p.rx.iter().all(|r| matches!(r.verdict, RxVerdict::Consumed { .. })) && p.pre.in_ring;
        for r in p.rx {
            match &r.verdict {
                RxVerdict::Consumed { frame, src, last, .. } => {
                    let ps_model = if batch_clean { Some(model_ps(las_model, ts)) } else { None };
                    if let Frame::Token { da, sa } = frame {
                        if *sa != ts && *sa <= 125 && *da <= 125 && (*da != ts || !*last) {
                            las_model = model_witness(las_model, *sa, *da);
                        }
                    }
                    // (a lone 0xE5 dropped from the buffer may have been consumed as a short
                    // confirmation or flushed with the remains of a timed-out exchange: the log
                    // cannot tell, so it does not restart the silence)
                    // The same holds for a whole buffer that happens to be one valid frame when the
                    // station drops what is left after undecodable data at the end of a supervised
                    // token pass.
                    let flushed_maybe = *last && garbage_before && matches!(self.st[i].hs, Hs::Passed { .. });
                    if !(matches!(frame, Frame::Sc) && self.st[i].awaiting.is_none()) && !flushed_maybe {
                        self.st[i].last_valid_activity = p.t;
                    }
                    // anything heard ends a pending pass supervision
                    if let Hs::Passed { to, heard, .. } = &mut self.st[i].hs {
                        if !*heard {
                            *heard = true;
                            self.n_pass_heard += 1;
                            // a successor that was heard is never removed
                            // (judged only when nothing else was consumed in this poll: witnessed
                            // token passes of the same batch may legitimately clear it)
                            if p.rx.len() == 1 && frame.sa() == Some(*to) && p.post.las >> (*to & 127) & 1 == 0 && p.post.online {
                                w.violate(
                                    self.prop,
                                    "handover.removal",
                                    "heard-successor-removed",
                                    Some(ts),
                                    format!("#{ts} passed the token to #{to}, heard it transmit, and yet removed it from its list of active stations"),
                                );
                                return;
                            }
                        }
                        self.st[i].hs = Hs::NotHolding;
                        self.st[i].offers.clear();
                        self.st[i].offer = None;
                    }
                    // A token of another station consumed while holding the token: a second token is
                    // about, the station gives its own up (it backs off into the idle state wherever
                    // it listens while holding: claim scan, waiting for a reply or a GAP answer).
                    let mut backed_off_now = false;
                    if self.st[i].hs == Hs::Holding {
                        // what the station is waiting for (it only listens while holding the token
                        // when a reply is outstanding or during the claim scan)
                        let expected = match (self.st[i].awaiting.take(), frame) {
                            (Some((a, _)), Frame::Data { da, sa, fc, .. }) => *sa == a && *da == ts && fc & 0x40 == 0,
                            (Some((_, gap)), Frame::Sc) => !gap,
                            (None, Frame::Token { .. }) => false,
                            (None, _) => true,
                            (Some(_), Frame::Token { .. }) => false,
                        };
                        if !expected {
                            self.st[i].hs = Hs::NotHolding;
                            self.st[i].offers.clear();
                            self.st[i].offer = None;
                            self.n_backoffs += 1;
                            // (the telegram that causes the back-off is spent on it: not an offer)
                            backed_off_now = true;
                        }
                    }
                    match frame {
                        Frame::Token { da, sa } if *da == ts && *sa != ts && !backed_off_now => {
                            let offered_before = self.st[i].offers.contains(sa);
                            let wire_end = src.map(|x| w.bus.borrow().txs[x].end());
                            self.st[i].offer = Some(Offer {
                                from: *sa,
                                ps_pre: p.pre.ps,
                                ps_post: p.post.ps,
                                ps_model,
                                alone: p.rx.len() == 1,
                                in_ring_pre: p.pre.in_ring,
                                offered_before,
                                last_in_buffer: *last,
                                at: p.t,
                                wire_end,
                            });
                            if !offered_before {
                                self.st[i].offers.push(*sa);
                            }
                            // sufficient clause
                            if *last && p.pre.in_ring && p.pre.ps == *sa && p.post.ps == *sa && self.st[i].hs == Hs::NotHolding && p.txs.is_empty() {
                                if let Some(we) = wire_end {
                                    // the token must be the last thing on the bus ("the bus stayed silent")
                                    let intact = src.map(|x| w.bus.borrow().txs[x].intact() && x + 1 == w.bus.borrow().txs.len()).unwrap_or(false);
                                    if intact {
                                        // the station may have been busy (answering a request) when the
                                        // token arrived: count from the poll that consumed it
                                        let from = we.max(p.t.saturating_sub(w.us(w.stations[i].cfg.p_max_us)));
                                        self.st[i].must_tx_by = Some((from + Self::reaction_budget(w, i), *sa));
                                        self.n_must_tx += 1;
                                    }
                                }
                            }
                        }
                        _ => {
                            // something else was consumed after the offer (or instead of one)
                            self.st[i].offer = None;
                        }
                    }
                }
                RxVerdict::Discarded { .. } | RxVerdict::Flushed { .. } | RxVerdict::Anomaly { .. } => {
                    self.st[i].offer = None;
                    if let Hs::Passed { heard, .. } = &mut self.st[i].hs {
                        // undecodable data is bus activity but no proof of life
                        let _ = heard;
                    }
                }
            }
        }
        if !p.post.in_ring {
            let s = &mut self.st[i];
            if s.hs != Hs::NotHolding {
                s.hs = Hs::NotHolding;
            }
            s.must_tx_by = None;
        }
    }

    fn on_tx(&mut self, w: &World, idx: usize) {
        let bus = w.bus.borrow();
        let tx = &bus.txs[idx];
        let prev_end = self.prev_end;
        self.prev_end = self.prev_end.max(tx.end());
        // any transmission by somebody else cancels "the bus stayed silent"
        for (j, s) in self.st.iter_mut().enumerate() {
            if !(tx.real && tx.sender == j) {
                s.must_tx_by = None;
                if let Hs::Passed { .. } = s.hs {
                    // will be judged when (if) the station consumes it
                }
            }
        }
        if !tx.real {
            return;
        }
        let i = tx.sender;
        let ts = w.stations[i].cfg.addr;
        let Some(frame) = tx.frame.as_ref() else { return };
        let s = &mut self.st[i];
        if let Some((by, _)) = s.must_tx_by.take() {
            let budget = Self::reaction_budget(w, i) as f64;
            let used = 1.0 - (by.saturating_sub(tx.start)) as f64 / budget;
            if used > self.max_reaction_ratio {
                self.max_reaction_ratio = used;
            }
        }
        // replies to requests addressed to the station need no token
        if frame.is_reply() {
            return;
        }
        s.awaiting = match frame {
            Frame::Data { da, .. } if frame.request_expecting_reply().is_some() => Some((*da, w.cur_tx_app.is_none() && frame.is_fdl_status_request())),
            _ => None,
        };
        let slot = w.slot_ticks(i);
        let cfg = &w.stations[i].cfg;
        // Undecodable data after the pass ends the supervision ("another station is active"): what
        // the station sends next is judged like the transmission of any station without the token -
        // unless it is the very repetition that must not happen.
        if let Hs::Passed { to, .. } = s.hs {
            let repeats = matches!(frame, Frame::Token { da, sa } if *sa == ts && *da == to);
            if s.garbage_since_pass && !(repeats && s.bytes_since_pass > 0) {
                s.hs = Hs::NotHolding;
                s.offer = None;
                s.offers.clear();
            }
        }
        match s.hs.clone() {
            Hs::Holding => {}
            Hs::NotHolding => {
                // acceptance or claim
                let is_claim = matches!(frame, Frame::Token { da, sa } if *da == ts && *sa == ts);
                let _ = prev_end;
                // own transmissions and valid telegrams count; undecodable bytes are ignored here
                // (the exact rule is C01's business on a fault-free bus)
                let own_end = bus.txs[..idx].iter().rev().take(24).find(|t| t.sender == i).map(|t| t.end()).unwrap_or(0);
                // ... and every poll in which the PHY showed the station new bytes, decodable or not,
                // restarts the silence (the station may not claim into a running transmission)
                let silence_from = s.last_valid_activity.max(own_end).max(s.online_at).min(last_visible_activity(w, &bus, i, idx, tx.start).max(s.online_at)).max(s.last_bytes_poll);
                let timeout = token_lost_timeout_ticks(w, i);
                // (behind a transmitter with latency the station knows the end of its own
                // transmission only with the granularity of its polls, §5.5)
                let lag_tol = if w.stations[i].cfg.tx_lag_us > 0 { w.stations[i].cfg.p_max_us } else { 0 };
                let claim_ok = is_claim && tx.start.saturating_sub(silence_from) + tol_ticks(w, i, 2 + lag_tol, timeout) >= timeout;
                if claim_ok {
                    // a claim after the station's own silence time-out needs no token
                    self.n_claims += 1;
                } else {
                    match &s.offer {
                        Some(o) => {
                            // the predecessor registered when the token was handled: the model's
                            // within a batch, the one before the poll for a telegram that came
                            // alone (afterwards the accepted sender *is* the predecessor), either
                            // one when part of the batch was undecodable
                            let from_ps = match o.ps_model {
                                Some(m) => o.from == m,
                                None if o.alone => o.from == o.ps_pre,
                                None => o.from == o.ps_pre || o.from == o.ps_post,
                            };
                            if o.ps_model.is_some() {
                                self.n_accept_in_batch += 1;
                            }
                            if !o.in_ring_pre {
                                w.violate(
                                    self.prop,
                                    "handover.accept",
                                    "token-accepted-while-listening",
                                    Some(ts),
                                    format!("#{ts} was not in the ring when #{} offered it the token, yet it starts transmitting {}", o.from, frame.short()),
                                );
                                return;
                            }
                            if !o.last_in_buffer {
                                w.violate(
                                    self.prop,
                                    "handover.accept",
                                    "token-accepted-with-traffic-behind-it",
                                    Some(ts),
                                    format!("#{ts} uses a token from #{} although another telegram followed it in the same receive buffer", o.from),
                                );
                                return;
                            }
                            if from_ps {
                                self.n_accept_ps += 1;
                            } else if o.offered_before {
                                self.n_accept_second_offer += 1;
                            } else {
                                w.violate(
                                    self.prop,
                                    "handover.accept",
                                    "token-accepted-on-first-offer-from-stranger",
                                    Some(ts),
                                    format!(
                                        "#{ts} starts transmitting {} after a single token offer from #{}, which is not its registered predecessor (#{} / #{})",
                                        frame.short(),
                                        o.from,
                                        o.ps_pre,
                                        o.ps_post
                                    ),
                                );
                                return;
                            }
                        }
                        None => {
                            w.violate(
                                self.prop,
                                "handover.accept",
                                "transmits-without-token",
                                Some(ts),
                                format!("#{ts} starts transmitting {} although the last thing it consumed was not a token addressed to it and its silence time-out has not expired", frame.short()),
                            );
                            return;
                        }
                    }
                }
                s.hs = Hs::Holding;
                s.offer = None;
                s.offers.clear();
            }
            Hs::Passed { to, attempt, end, heard, tx: pass_tx } => {
                if heard {
                    // handled in on_poll (state already reset); cannot happen here
                    s.hs = Hs::Holding;
                } else {
                    // nothing heard since the pass: only a retransmission or the next pass may follow
                    let Frame::Token { da, sa } = frame else {
                        w.violate(
                            self.prop,
                            "handover.retry",
                            "non-token-after-unanswered-pass",
                            Some(ts),
                            format!("#{ts} passed the token to #{to}, heard nothing, and now sends {}", frame.short()),
                        );
                        return;
                    };
                    if *sa != ts {
                        return;
                    }
                    // timing: one slot time of supervision
                    let since = tx.start.saturating_sub(end);
                    // (behind a transmitter with latency the station learns that its telegram is out
                    // from `poll_transmission`, i.e. with the granularity of its polls: §5.5)
                    let lo = slot.saturating_sub(w.us(2 + if cfg.tx_lag_us > 0 { cfg.p_max_us } else { 0 }));
                    let hi = slot + w.us(cfg.p_max_us + cfg.rx_chunk_us + cfg.tx_lag_us + 2) + tol_ticks(w, i, 1, slot);
                    // was anything on the bus in between that the station could have seen?
                    let disturbed = bus.txs[..idx].iter().rev().take(8).any(|t| t.sender != i && t.end() > bus.txs[pass_tx].start && (t.lost_for >> i) & 1 == 0);
                    if since < lo {
                        w.violate(
                            self.prop,
                            "handover.retry",
                            "supervision-shorter-than-slot",
                            Some(ts),
                            format!("#{ts} repeats / re-addresses its token pass {} bit times after the previous attempt; the slot time is {} bit times", since / BIT, cfg.slot_bits),
                        );
                        return;
                    }
                    if since > hi && !disturbed {
                        w.violate(
                            self.prop,
                            "handover.retry",
                            "supervision-too-long",
                            Some(ts),
                            format!("#{ts} waited {} bit times after an unanswered token pass (slot time {} bit times)", since / BIT, cfg.slot_bits),
                        );
                        return;
                    }
                    // "repeats the pass ... if nothing is heard": bytes that reached the station after
                    // its pass are something, whether or not they ever became a telegram
                    if s.bytes_since_pass > 0 && *da == to {
                        w.violate(
                            self.prop,
                            "handover.retry",
                            "pass-repeated-although-something-was-heard",
                            Some(ts),
                            format!("#{ts} repeats its token pass to #{to} although {} byte(s) arrived after the previous attempt (a damaged or truncated telegram is still somebody transmitting)", s.bytes_since_pass),
                        );
                        return;
                    }
                    if *da == to {
                        if attempt >= 3 {
                            w.violate(
                                self.prop,
                                "handover.retry",
                                "more-than-two-retries",
                                Some(ts),
                                format!("#{ts} sends the token to silent #{to} for the {}th time", attempt + 1),
                            );
                            return;
                        }
                        if attempt == 1 {
                            self.n_retry2 += 1;
                        } else {
                            self.n_retry3 += 1;
                        }
                        s.hs = Hs::Passed { to, attempt: attempt + 1, end: tx.end(), heard: false, tx: idx };
                        s.bytes_since_pass = 0;
                        s.garbage_since_pass = false;
                        s.retry_overdue_reported = false;
                        return;
                    }
                    // a different destination: only after three attempts, with the silent one removed
                    if attempt < 3 && !disturbed {
                        w.violate(
                            self.prop,
                            "handover.retry",
                            "successor-dropped-early",
                            Some(ts),
                            format!("#{ts} gives up on #{to} after {attempt} token pass attempt(s) and passes to #{da}"),
                        );
                        return;
                    }
                    let las = w.stations[i].snap.las;
                    if las >> (to & 127) & 1 == 1 && !disturbed {
                        w.violate(
                            self.prop,
                            "handover.removal",
                            "silent-successor-kept",
                            Some(ts),
                            format!("#{ts} passes the token on to #{da} but silent #{to} is still in its list of active stations"),
                        );
                        return;
                    }
                    // the list as it was before this poll, minus the silent station (the pass itself is
                    // witnessed by the station and may already have changed the list again)
                    let base = s.pre_las & !(1u128 << (to & 127));
                    let want = succ_in(base | (1u128 << (ts & 127)), ts);
                    if *da != want && !disturbed {
                        w.violate(
                            self.prop,
                            "handover.removal",
                            "wrong-next-station-after-removal",
                            Some(ts),
                            format!("after removing silent #{to}, #{ts} passes the token to #{da} but the next station of its list is #{want}"),
                        );
                        return;
                    }
                    self.n_removed += 1;
                    s.hs = Hs::Holding;
                }
            }
        }
        // state after this transmission
        if let Frame::Token { da, sa } = frame {
            if *sa == ts {
                if *da == ts {
                    self.n_pass_to_self += 1;
                    s.hs = Hs::Holding;
                } else if !matches!(s.hs, Hs::Passed { .. }) {
                    s.hs = Hs::Passed { to: *da, attempt: 1, end: tx.end(), heard: false, tx: idx };
                    s.bytes_since_pass = 0;
                    s.garbage_since_pass = false;
                    s.retry_overdue_reported = false;
                }
            }
        }
    }

    fn observer(&self) -> bool {
        true
    }

    fn report(&self, _w: &World, s: &mut Stats) {
        s.add("handover.accepted_from_predecessor", self.n_accept_ps);
        s.add("probe.token_accepted_from_new_predecessor_on_second_offer", self.n_accept_second_offer);
        s.add("probe.token_accepted_as_last_of_several_telegrams_in_one_poll", self.n_accept_in_batch);
        s.add("probe.foreign_token_consumed_while_holding", self.n_backoffs);
        s.add("handover.claims", self.n_claims);
        s.add("probe.second_pass_attempt", self.n_retry2);
        s.add("probe.third_pass_attempt", self.n_retry3);
        s.add("probe.successor_removed", self.n_removed);
        s.add("handover.pass_followed_by_activity", self.n_pass_heard);
        s.add("probe.token_passed_to_self", self.n_pass_to_self);
        s.add("handover.reaction_obligations", self.n_must_tx);
        s.max("handover.max_reaction_over_budget", self.max_reaction_ratio);
    }
}
