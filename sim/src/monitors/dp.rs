//! R6 — DP wire monitors (DESIGN §3, §6): bring-up automaton (C03), process-image shadows (C04),
//! FCB / retry discipline (C08), cycle and event accounting (C14), bounded liveness (C07).
//!
//! Everything is judged from what is observable: requests on the wire (decoded by R1), replies
//! actually delivered to the DP master (`FdlApplication::receive_reply` callbacks), time-outs,
//! the master's events and the public accessors of `Peripheral`.

use crate::apps::{AppCall, UserAct};
use crate::phy::RxVerdict;
use crate::scenario::{AppCfg, PeriphCfg};
use crate::wire::{self, Fc, Frame};
use crate::world::{Monitor, PollInfo, Stats, World};
use profirust::dp::PeripheralEvent;

#[derive(Clone, Copy, Debug, PartialEq, Eq)]
pub enum Service {
    Diag,
    SetPrm,
    ChkCfg,
    DataExchange,
    GlobalControl,
    Other,
}

/// Which service a request belongs to is read off its SAPs on the wire.
pub fn service_of(f: &Frame) -> Option<Service> {
    match f {
        Frame::Data { dsap, ssap, fc, .. } if fc & 0x40 != 0 => Some(match (dsap, ssap) {
            (Some(60), Some(62)) => Service::Diag,
            (Some(61), Some(62)) => Service::SetPrm,
            (Some(62), Some(62)) => Service::ChkCfg,
            (None, None) => {
                if matches!(wire::fc_decode(*fc), Fc::Request { req, .. } if req == wire::REQ_FDL_STATUS) {
                    return None;
                }
                Service::DataExchange
            }
            (Some(58), Some(62)) => Service::GlobalControl,
            _ => Service::Other,
        }),
        _ => None,
    }
}

/// Is this reply "clearly acceptable" for the service (DESIGN §6 C08)?
pub fn clearly_acceptable(svc: Service, reply: &Frame) -> bool {
    match svc {
        Service::SetPrm | Service::ChkCfg => matches!(reply, Frame::Sc),
        Service::Diag => matches!(reply, Frame::Data { dsap: Some(62), ssap: Some(60), pdu, .. } if pdu.len() >= 6),
        Service::DataExchange => true,
        _ => false,
    }
}

/// A DP master application inside the world: (station index, app index).
#[derive(Clone, Copy, Debug, PartialEq, Eq)]
pub struct DpRef {
    pub st: usize,
    pub app: usize,
}

pub fn dp_apps(w: &World) -> Vec<DpRef> {
    let mut v = Vec::new();
    for (st, s) in w.stations.iter().enumerate() {
        for (app, a) in s.cfg.apps.iter().enumerate() {
            if matches!(a, AppCfg::Dp(_)) {
                v.push(DpRef { st, app });
            }
        }
    }
    v
}

fn periph_cfgs(w: &World, r: DpRef) -> Vec<PeriphCfg> {
    match &w.stations[r.st].cfg.apps[r.app] {
        AppCfg::Dp(d) => d.peripherals.clone(),
        _ => vec![],
    }
}

/// Per-peripheral request tracking shared by the DP monitors.
#[derive(Clone, Debug, Default)]
struct Outstanding {
    svc: Option<Service>,
    tx: usize,
}

fn event_name(e: PeripheralEvent) -> &'static str {
    match e {
        PeripheralEvent::Online => "Online",
        PeripheralEvent::Configured => "Configured",
        PeripheralEvent::ConfigError => "ConfigError",
        PeripheralEvent::ParameterError => "ParameterError",
        PeripheralEvent::DataExchanged => "DataExchanged",
        PeripheralEvent::Diagnostics => "Diagnostics",
        PeripheralEvent::Offline => "Offline",
    }
}

// ==========================================================================================
// C03

#[derive(Clone, Copy, Debug, PartialEq, Eq, PartialOrd, Ord)]
enum Bring {
    S0,
    S1,
    S2,
    S3,
    S4,
}

struct BringPer {
    cfg: PeriphCfg,
    state: Bring,
    out: Outstanding,
}

pub struct BringupMonitor {
    prop: &'static str,
    dp: DpRef,
    per: Vec<BringPer>,
    pub n_dx: u64,
    pub n_setprm: u64,
    pub n_chkcfg: u64,
    pub n_diag: u64,
    pub n_s4: u64,
    pub n_resets: u64,
}

impl BringupMonitor {
    pub fn new(prop: &'static str, w: &World, dp: DpRef) -> Self {
        let per = periph_cfgs(w, dp)
            .into_iter()
            .map(|cfg| BringPer {
                cfg,
                state: Bring::S0,
                out: Outstanding::default(),
            })
            .collect();
        BringupMonitor {
            prop,
            dp,
            per,
            n_dx: 0,
            n_setprm: 0,
            n_chkcfg: 0,
            n_diag: 0,
            n_s4: 0,
            n_resets: 0,
        }
    }

    fn idx_of(&self, w: &World, addr: u8) -> Option<usize> {
        w.stations[self.dp.st].apps.get(self.dp.app).and_then(|p| p.dp()).and_then(|d| d.index_of_addr(addr))
    }

    /// The Set_Prm PDU the configured options demand (wd factors checked separately).
    fn check_request_bytes(&self, w: &World, k: usize, svc: Service, f: &Frame) -> Result<(), String> {
        let Frame::Data { fc, pdu, sa, .. } = f else {
            return Ok(());
        };
        let st = &w.stations[self.dp.st].cfg;
        if *sa != st.addr {
            return Err(format!("source address {} instead of {}", sa, st.addr));
        }
        let req = match wire::fc_decode(*fc) {
            Fc::Request { req, .. } => req,
            _ => return Ok(()),
        };
        let c = &self.per[k].cfg;
        match svc {
            Service::Diag => {
                if req != wire::REQ_SRD_LOW {
                    return Err(format!("Slave_Diag with request type {req}"));
                }
                if !pdu.is_empty() {
                    return Err(format!("Slave_Diag request with {} data bytes", pdu.len()));
                }
            }
            Service::ChkCfg => {
                if req != wire::REQ_SRD_LOW {
                    return Err(format!("Chk_Cfg with request type {req}"));
                }
                if Some(pdu) != c.config.as_ref() {
                    return Err(format!("Chk_Cfg carries {:02x?} but the configured bytes are {:02x?}", pdu, c.config));
                }
            }
            Service::SetPrm => {
                if req != wire::REQ_SRD_LOW {
                    return Err(format!("Set_Prm with request type {req}"));
                }
                let up = c.user_prm.clone().unwrap_or_default();
                if pdu.len() != 7 + up.len() {
                    return Err(format!("Set_Prm has {} bytes, expected {}", pdu.len(), 7 + up.len()));
                }
                let mut status = 0x80u8;
                if c.sync {
                    status |= 0x20;
                }
                if c.freeze {
                    status |= 0x10;
                }
                match st.watchdog_ms {
                    Some(ms) => {
                        status |= 0x08;
                        let t10 = u64::from(ms) / 10;
                        let (f1, f2) = (u64::from(pdu[1]), u64::from(pdu[2]));
                        if f1 == 0 || f2 == 0 || f1 * f2 < t10 || f1 * (f2 - 1) >= t10.max(1) && f2 > 1 {
                            return Err(format!("watchdog factors {f1}x{f2} do not encode the configured time-out of {ms} ms"));
                        }
                    }
                    None => {
                        if pdu[1] != 0 || pdu[2] != 0 {
                            return Err(format!("watchdog factors {}x{} although no watchdog is configured", pdu[1], pdu[2]));
                        }
                    }
                }
                if pdu[0] != status {
                    return Err(format!("station status byte {:#04x}, expected {:#04x}", pdu[0], status));
                }
                if pdu[3] != st.min_tsdr {
                    return Err(format!("min Tsdr {} instead of {}", pdu[3], st.min_tsdr));
                }
                if pdu[4] != (c.ident >> 8) as u8 || pdu[5] != c.ident as u8 {
                    return Err(format!("ident {:02x}{:02x} instead of {:04x}", pdu[4], pdu[5], c.ident));
                }
                if pdu[6] != c.groups {
                    return Err(format!("group mask {:#04x} instead of {:#04x}", pdu[6], c.groups));
                }
                if pdu[7..] != up[..] {
                    return Err("user parameters differ from the configured bytes".to_string());
                }
            }
            Service::DataExchange => {
                if req != wire::REQ_SRD_HIGH {
                    return Err(format!("Data_Exchange with request type {req}"));
                }
            }
            _ => {}
        }
        Ok(())
    }
}

impl Monitor for BringupMonitor {
    fn name(&self) -> &'static str {
        "bringup"
    }

    fn on_tx(&mut self, w: &World, idx: usize) {
        let bus = w.bus.borrow();
        let tx = &bus.txs[idx];
        if tx.sender != w.stations[self.dp.st].node || w.cur_tx_app != Some(self.dp.app) {
            return;
        }
        let Some(f) = tx.frame.as_ref() else { return };
        let Some(svc) = service_of(f) else { return };
        if svc == Service::GlobalControl {
            return;
        }
        let da = f.da().unwrap();
        let Some(k) = self.idx_of(w, da) else { return };
        let master = w.stations[self.dp.st].cfg.addr;
        if let Err(e) = self.check_request_bytes(w, k, svc, f) {
            w.violate(self.prop, "bringup.bytes", &format!("request-bytes-{svc:?}"), Some(master), format!("request to #{da}: {e}"));
            return;
        }
        match svc {
            Service::Diag => self.n_diag += 1,
            Service::SetPrm => {
                self.n_setprm += 1;
                if self.per[k].state > Bring::S1 {
                    self.n_resets += 1;
                }
                if self.per[k].state >= Bring::S1 {
                    self.per[k].state = Bring::S1;
                }
            }
            Service::ChkCfg => self.n_chkcfg += 1,
            Service::DataExchange => {
                self.n_dx += 1;
                if self.per[k].state != Bring::S4 {
                    w.violate(
                        self.prop,
                        "bringup.order",
                        &format!("dx-in-{:?}", self.per[k].state),
                        Some(master),
                        format!(
                            "Data_Exchange request to #{da} although its bring-up is only at {:?} (S0 nothing, S1 diagnostics answered, S2 Set_Prm acknowledged, S3 Chk_Cfg acknowledged, S4 readiness confirmed)",
                            self.per[k].state
                        ),
                    );
                }
            }
            _ => {
                w.violate(self.prop, "bringup.bytes", "unknown-sap", Some(master), format!("request to #{da} with unexpected SAPs: {}", f.short()));
            }
        }
        self.per[k].out = Outstanding { svc: Some(svc), tx: idx };
    }

    fn on_poll(&mut self, w: &World, p: &PollInfo) {
        if p.st != self.dp.st {
            return;
        }
        for c in p.calls {
            match c {
                AppCall::Reply { app, addr, frame } if *app == self.dp.app => {
                    let Some(k) = self.idx_of(w, *addr) else { continue };
                    let svc = self.per[k].out.svc.take();
                    let st = self.per[k].state;
                    // only what the addressed peripheral itself said counts ("it answered ...")
                    if matches!(frame, Frame::Data { sa, .. } if sa != addr) {
                        continue;
                    }
                    match (svc, frame) {
                        (Some(Service::Diag), Frame::Data { dsap: Some(62), ssap: Some(60), pdu, .. }) if pdu.len() >= 6 => {
                            if st == Bring::S0 {
                                self.per[k].state = Bring::S1;
                            } else if st == Bring::S3 {
                                let prm_fault = pdu[0] & 0x40 != 0;
                                let cfg_fault = pdu[0] & 0x04 != 0;
                                let not_ready = pdu[0] & 0x02 != 0;
                                let prm_req = pdu[1] & 0x01 != 0;
                                if !prm_fault && !cfg_fault && !not_ready && !prm_req {
                                    self.per[k].state = Bring::S4;
                                    self.n_s4 += 1;
                                }
                            }
                        }
                        (Some(Service::SetPrm), Frame::Sc) => {
                            if st == Bring::S1 {
                                self.per[k].state = Bring::S2;
                            }
                        }
                        (Some(Service::ChkCfg), Frame::Sc) => {
                            if st == Bring::S2 {
                                self.per[k].state = Bring::S3;
                            }
                        }
                        _ => {}
                    }
                }
                AppCall::Timeout { app, addr } if *app == self.dp.app => {
                    if let Some(k) = self.idx_of(w, *addr) {
                        self.per[k].out.svc = None;
                    }
                }
                _ => {}
            }
        }
        for e in p.dp_events {
            if e.app != self.dp.app {
                continue;
            }
            if let Some((k, _, ev)) = e.periph {
                if k < self.per.len() && matches!(ev, PeripheralEvent::Offline | PeripheralEvent::ParameterError | PeripheralEvent::ConfigError) {
                    self.per[k].state = Bring::S0;
                }
            }
        }
    }

    fn on_user(&mut self, _w: &World, st: usize, act: &UserAct) {
        if st != self.dp.st {
            return;
        }
        if let UserAct::ResetAddress { app, periph, .. } = act {
            if *app == self.dp.app && *periph < self.per.len() {
                // the peripheral object was re-created: "considered offline"
                self.per[*periph].state = Bring::S0;
                self.per[*periph].out = Outstanding::default();
            }
        }
    }

    fn observer(&self) -> bool {
        true
    }

    fn report(&self, _w: &World, s: &mut Stats) {
        s.add("dp.requests.data_exchange", self.n_dx);
        s.add("dp.requests.set_prm", self.n_setprm);
        s.add("dp.requests.chk_cfg", self.n_chkcfg);
        s.add("dp.requests.slave_diag", self.n_diag);
        s.add("dp.bringups_completed", self.n_s4);
        s.add("probe.set_prm_after_validation_started", self.n_resets);
    }
}

// ==========================================================================================
// C04

struct ImgPer {
    cfg: PeriphCfg,
    shadow_i: Vec<u8>,
    out: Outstanding,
    /// After a don't-care reply: accept either the old image or this one.
    maybe: Option<Vec<u8>>,
}

pub struct ImageMonitor {
    prop: &'static str,
    dp: DpRef,
    per: Vec<ImgPer>,
    pub n_updates: u64,
    pub n_rejected: u64,
    pub n_dontcare: u64,
    pub n_dx_checked: u64,
    pub n_sc_updates: u64,
}

impl ImageMonitor {
    pub fn new(prop: &'static str, w: &World, dp: DpRef) -> Self {
        let per = periph_cfgs(w, dp)
            .into_iter()
            .map(|cfg| ImgPer {
                shadow_i: vec![0; cfg.in_len],
                cfg,
                out: Outstanding::default(),
                maybe: None,
            })
            .collect();
        ImageMonitor {
            prop,
            dp,
            per,
            n_updates: 0,
            n_rejected: 0,
            n_dontcare: 0,
            n_dx_checked: 0,
            n_sc_updates: 0,
        }
    }
}

impl Monitor for ImageMonitor {
    fn name(&self) -> &'static str {
        "image"
    }

    fn on_tx(&mut self, w: &World, idx: usize) {
        let bus = w.bus.borrow();
        let tx = &bus.txs[idx];
        if tx.sender != w.stations[self.dp.st].node || w.cur_tx_app != Some(self.dp.app) {
            return;
        }
        let Some(f) = tx.frame.as_ref() else { return };
        let Some(svc) = service_of(f) else { return };
        if svc == Service::GlobalControl {
            return;
        }
        let da = f.da().unwrap();
        let Some(d) = w.stations[self.dp.st].apps.get(self.dp.app).and_then(|p| p.dp()) else { return };
        let Some(k) = d.index_of_addr(da) else { return };
        self.per[k].out = Outstanding { svc: Some(svc), tx: idx };
        if svc == Service::DataExchange {
            self.n_dx_checked += 1;
            if let Frame::Data { pdu, .. } = f {
                if *pdu != d.shadow_q[k] {
                    let master = w.stations[self.dp.st].cfg.addr;
                    let pos = pdu.iter().zip(d.shadow_q[k].iter()).position(|(a, b)| a != b);
                    w.violate(
                        self.prop,
                        "image.outputs",
                        "dx-request-not-current-pi-q",
                        Some(master),
                        format!(
                            "Data_Exchange request to #{da} carries {} bytes that differ from the current output image ({} bytes) at {:?}: sent {:02x?}, image {:02x?}",
                            pdu.len(),
                            d.shadow_q[k].len(),
                            pos,
                            &pdu[..pdu.len().min(8)],
                            &d.shadow_q[k][..d.shadow_q[k].len().min(8)]
                        ),
                    );
                }
            }
        }
    }

    fn on_poll(&mut self, w: &World, p: &PollInfo) {
        if p.st != self.dp.st {
            return;
        }
        let master = w.stations[self.dp.st].cfg.addr;
        let Some(d) = w.stations[self.dp.st].apps.get(self.dp.app).and_then(|p| p.dp()) else { return };
        // what is handed to the DP master as a reply must be a frame the reference decoder finds
        // on the wire (a telegram with, say, a damaged repeated start delimiter is no telegram)
        for c in p.calls {
            if let AppCall::Reply { app, addr, frame } = c {
                if *app == self.dp.app && !p.rx.iter().any(|r| matches!(&r.verdict, RxVerdict::Consumed { frame: f, .. } if f == frame)) {
                    w.violate(
                        self.prop,
                        "image.wire",
                        "reply-not-a-valid-frame-on-the-wire",
                        Some(master),
                        format!(
                            "the reply {} from #{addr} was delivered to the DP master, but the bytes the station consumed in this poll are not that telegram for the reference decoder ({:?})",
                            frame.short(),
                            p.rx.iter().map(|r| format!("{:?}", r.verdict)).collect::<Vec<_>>()
                        ),
                    );
                    return;
                }
            }
        }
        // ... and a frame that was sent as a telegram: not a byte sequence found in the middle of
        // a transmission whose beginning was thrown away as undecodable
        for c in p.calls {
            if let AppCall::Reply { app, addr, frame } = c {
                if *app == self.dp.app
                    && !p.rx.iter().any(|r| matches!(&r.verdict, RxVerdict::Consumed { frame: f, aligned: true, .. } if f == frame))
                {
                    w.violate(
                        self.prop,
                        "image.wire",
                        "reply-cut-out-of-a-damaged-transmission",
                        Some(master),
                        format!(
                            "the reply {} from #{addr} was delivered to the DP master, but these bytes are the inside of a transmission whose beginning the station had dropped as undecodable: no such telegram was sent",
                            frame.short()
                        ),
                    );
                    return;
                }
            }
        }
        // which peripheral must / may / must not have been updated in this poll
        let mut must: Option<usize> = None;
        let may: Option<usize> = None;
        for c in p.calls {
            match c {
                AppCall::Reply { app, addr, frame } if *app == self.dp.app => {
                    let Some(k) = d.index_of_addr(*addr) else { continue };
                    let svc = self.per[k].out.svc.take();
                    if svc != Some(Service::DataExchange) {
                        continue;
                    }
                    let in_len = self.per[k].cfg.in_len;
                    match frame {
                        Frame::Sc => {
                            if in_len == 0 {
                                must = Some(k);
                                self.n_sc_updates += 1;
                            } else {
                                self.n_rejected += 1;
                            }
                        }
                        Frame::Data { fc, pdu, dsap, ssap, sa, da } => {
                            let status = fc & 0x0F;
                            let well_formed = dsap.is_none() && ssap.is_none() && pdu.len() == in_len && sa == addr && *da == master && fc & 0x40 == 0;
                            match status {
                                0 | 8 | 10 if well_formed => {
                                    self.per[k].shadow_i = pdu.clone();
                                    must = Some(k);
                                }
                                // RDL / RDH ("data not received") and NR are error statuses for
                                // Data_Exchange even when they carry a payload of the right length:
                                // the slave did not take the outputs
                                12 | 13 | 9 if well_formed => {
                                    self.n_dontcare += 1;
                                    self.n_rejected += 1;
                                }
                                _ => self.n_rejected += 1,
                            }
                        }
                        Frame::Token { .. } => self.n_rejected += 1,
                    }
                }
                AppCall::Timeout { app, addr } if *app == self.dp.app => {
                    if let Some(k) = d.index_of_addr(*addr) {
                        self.per[k].out.svc = None;
                    }
                }
                _ => {}
            }
        }
        if must.is_some() {
            self.n_updates += 1;
        }
        // images after the poll
        for (k, h) in d.handles.iter().enumerate() {
            let Some((_, per)) = d.master.iter().find(|(hh, _)| hh == h) else { continue };
            let actual = per.pi_i();
            if actual != &self.per[k].shadow_i[..] {
                if let Some(m) = self.per[k].maybe.take() {
                    if actual == &m[..] {
                        self.per[k].shadow_i = m;
                        continue;
                    }
                }
                let addr = d.addrs[k];
                w.violate(
                    self.prop,
                    "image.inputs",
                    if must == Some(k) { "pi-i-not-updated" } else { "pi-i-changed" },
                    Some(master),
                    format!(
                        "input image of #{addr} is {:02x?}... but the last accepted Data_Exchange reply carried {:02x?}... ({})",
                        &actual[..actual.len().min(8)],
                        &self.per[k].shadow_i[..self.per[k].shadow_i.len().min(8)],
                        if must == Some(k) { "a well-formed reply was delivered in this poll" } else { "no well-formed reply was delivered in this poll" }
                    ),
                );
                return;
            }
            self.per[k].maybe = None;
        }
        // DataExchanged iff update
        if p.events_taken {
            let ev_k = p
                .dp_events
                .iter()
                .filter(|e| e.app == self.dp.app)
                .filter_map(|e| e.periph)
                .find(|(_, _, ev)| *ev == PeripheralEvent::DataExchanged)
                .map(|(k, _, _)| k);
            match (must, ev_k) {
                (Some(k), None) if may != Some(k) => {
                    w.violate(
                        self.prop,
                        "image.event",
                        "update-without-event",
                        Some(master),
                        format!("a well-formed Data_Exchange reply from #{} was delivered but no DataExchanged event was reported", d.addrs[k]),
                    );
                }
                (None, Some(k)) if may != Some(k) => {
                    w.violate(
                        self.prop,
                        "image.event",
                        "event-without-update",
                        Some(master),
                        format!("DataExchanged reported for #{} although no well-formed Data_Exchange reply was delivered in this poll", d.addrs.get(k).copied().unwrap_or(255)),
                    );
                }
                (Some(a), Some(b)) if a != b => {
                    w.violate(self.prop, "image.event", "event-wrong-peripheral", Some(master), format!("DataExchanged reported for peripheral {b} but the reply came from peripheral {a}"));
                }
                _ => {}
            }
        }
    }

    fn on_user(&mut self, _w: &World, st: usize, act: &UserAct) {
        if st != self.dp.st {
            return;
        }
        if let UserAct::ResetAddress { app, periph, .. } = act {
            if *app == self.dp.app && *periph < self.per.len() {
                self.per[*periph].out = Outstanding::default();
            }
        }
    }

    fn observer(&self) -> bool {
        true
    }

    fn report(&self, _w: &World, s: &mut Stats) {
        s.add("image.dx_requests_checked", self.n_dx_checked);
        s.add("image.input_updates", self.n_updates);
        s.add("image.replies_rejected", self.n_rejected);
        s.add("image.error_status_with_wellformed_payload", self.n_dontcare);
        s.add("probe.sc_for_inputless_peripheral", self.n_sc_updates);
    }
}

// ==========================================================================================
// C08

#[derive(Clone, Debug)]
struct ReqRec {
    fcv: bool,
    fcb: bool,
    svc: Service,
    req: u8,
    dsap: Option<u8>,
    ssap: Option<u8>,
    /// Transmissions of this request so far.
    n: u32,
    /// Transmissions since the last reply of any kind was delivered.
    acceptable: bool,
    any_reply: bool,
}

struct FcbPer {
    addr: u8,
    last: Option<ReqRec>,
    expect_first: bool,
    offline_mode: bool,
    /// Transmissions to this address since the last delivered reply (of any kind).
    unanswered: u32,
    /// Transmissions of the current request since the last clearly acceptable reply.
    since_acceptable: u32,
    offline_events: u32,
    outstanding: bool,
}

pub struct FcbMonitor {
    prop: &'static str,
    dp: DpRef,
    per: Vec<FcbPer>,
    pub n_requests: u64,
    pub n_retrans: u64,
    pub n_toggles: u64,
    pub n_first: u64,
    pub n_offline: u64,
    pub n_retry_limit_reached: u64,
}

impl FcbMonitor {
    pub fn new(prop: &'static str, w: &World, dp: DpRef) -> Self {
        let per = periph_cfgs(w, dp)
            .into_iter()
            .map(|c| FcbPer {
                addr: c.addr,
                last: None,
                expect_first: true,
                offline_mode: true,
                unanswered: 0,
                since_acceptable: 0,
                offline_events: 0,
                outstanding: false,
            })
            .collect();
        FcbMonitor {
            prop,
            dp,
            per,
            n_requests: 0,
            n_retrans: 0,
            n_toggles: 0,
            n_first: 0,
            n_offline: 0,
            n_retry_limit_reached: 0,
        }
    }
}

impl Monitor for FcbMonitor {
    fn name(&self) -> &'static str {
        "fcb"
    }

    fn on_tx(&mut self, w: &World, idx: usize) {
        let bus = w.bus.borrow();
        let tx = &bus.txs[idx];
        if tx.sender != w.stations[self.dp.st].node || w.cur_tx_app != Some(self.dp.app) {
            return;
        }
        let Some(f) = tx.frame.as_ref() else { return };
        let Some(svc) = service_of(f) else { return };
        if svc == Service::GlobalControl {
            return;
        }
        let Frame::Data { da, dsap, ssap, fc, .. } = f else { return };
        let Some(d) = w.stations[self.dp.st].apps.get(self.dp.app).and_then(|p| p.dp()) else { return };
        let Some(k) = d.index_of_addr(*da) else { return };
        let Fc::Request { fcv, fcb, req } = wire::fc_decode(*fc) else { return };
        let master = w.stations[self.dp.st].cfg.addr;
        let retry_limit = u32::from(w.stations[self.dp.st].cfg.retry);
        self.n_requests += 1;
        let p = &mut self.per[k];
        let viol = |oracle: &str, sig: &str, detail: String| w.violate(self.prop, oracle, sig, Some(master), detail);

        if !fcv && !fcb {
            viol("fcb.discipline", "inactive-fcb", format!("acknowledged-service request to #{da} with FCV=0/FCB=0: {}", f.short()));
            return;
        }
        let same_as_last = |l: &ReqRec| l.svc == svc && l.req == req && l.dsap == *dsap && l.ssap == *ssap;

        if p.offline_mode && svc != Service::Diag {
            viol(
                "fcb.offline",
                "non-diag-while-offline",
                format!("#{da} is considered offline but is sent {} instead of a Slave_Diag probe", f.short()),
            );
            return;
        }
        if p.expect_first {
            if fcv || !fcb {
                viol(
                    "fcb.discipline",
                    "first-request-not-fcv0-fcb1",
                    format!("first request to #{da} after start-up / Offline carries FCV={}/FCB={} instead of FCV=0/FCB=1: {}", fcv as u8, fcb as u8, f.short()),
                );
                return;
            }
            self.n_first += 1;
            let retrans = matches!(&p.last, Some(l) if !l.fcv && l.fcb && same_as_last(l) && !l.any_reply);
            p.unanswered += 1;
            p.since_acceptable += 1;
            let n = if retrans { p.last.as_ref().unwrap().n + 1 } else { 1 };
            p.last = Some(ReqRec { fcv, fcb, svc, req, dsap: *dsap, ssap: *ssap, n, acceptable: false, any_reply: false });
            p.outstanding = true;
            return;
        }
        let Some(l) = p.last.clone() else {
            return;
        };
        let same_bit = l.fcv == fcv && l.fcb == fcb;
        if same_bit {
            // must be a retransmission of the same request, with no acceptable reply in between
            if !same_as_last(&l) {
                viol(
                    "fcb.discipline",
                    "same-fcb-different-request",
                    format!(
                        "consecutive requests to #{da} carry the same frame count bit (FCV={}/FCB={}) but differ: {:?}/req{} then {}",
                        fcv as u8, fcb as u8, l.svc, l.req, f.short()
                    ),
                );
                return;
            }
            if l.acceptable {
                viol(
                    "fcb.discipline",
                    "no-toggle-after-accepted-reply",
                    format!("request to #{da} repeats FCV={}/FCB={} although an acceptable reply to the previous {:?} request was delivered", fcv as u8, fcb as u8, l.svc),
                );
                return;
            }
            self.n_retrans += 1;
            p.unanswered += 1;
            p.since_acceptable += 1;
            if !p.offline_mode && p.unanswered > 1 + retry_limit {
                viol(
                    "fcb.retry",
                    "too-many-transmissions",
                    format!("{:?} request to #{da} transmitted {} times without an (acceptable) answer (max_retry_limit {})", svc, p.unanswered, retry_limit),
                );
                return;
            }
            let mut r = l;
            r.n += 1;
            r.any_reply = false;
            p.last = Some(r);
            p.outstanding = true;
            return;
        }
        // different bit: a new request
        if l.acceptable {
            let want_fcb = !l.fcb;
            if !fcv || fcb != want_fcb {
                viol(
                    "fcb.discipline",
                    "bad-toggle",
                    format!(
                        "request to #{da} after an accepted reply carries FCV={}/FCB={}; expected FCV=1/FCB={}",
                        fcv as u8, fcb as u8, want_fcb as u8
                    ),
                );
                return;
            }
            self.n_toggles += 1;
            p.since_acceptable = 0;
        }
        p.unanswered += 1;
        p.since_acceptable += 1;
        p.last = Some(ReqRec { fcv, fcb, svc, req, dsap: *dsap, ssap: *ssap, n: 1, acceptable: false, any_reply: false });
        p.outstanding = true;
    }

    fn on_poll(&mut self, w: &World, p: &PollInfo) {
        if p.st != self.dp.st {
            return;
        }
        let master = w.stations[self.dp.st].cfg.addr;
        let retry_limit = u32::from(w.stations[self.dp.st].cfg.retry);
        let Some(d) = w.stations[self.dp.st].apps.get(self.dp.app).and_then(|p| p.dp()) else { return };
        for c in p.calls {
            match c {
                AppCall::Reply { app, addr, frame } if *app == self.dp.app => {
                    let Some(k) = d.index_of_addr(*addr) else { continue };
                    let pp = &mut self.per[k];
                    pp.outstanding = false;
                    // Set_Prm and Chk_Cfg are acknowledged by a short confirmation and by nothing
                    // else: any other reply leaves the request unanswered
                    let no_ack = matches!(pp.last.as_ref().map(|l| l.svc), Some(Service::SetPrm) | Some(Service::ChkCfg)) && !matches!(frame, Frame::Sc);
                    if !no_ack {
                        pp.unanswered = 0;
                    }
                    if let Some(l) = pp.last.as_mut() {
                        l.any_reply = true;
                        if clearly_acceptable(l.svc, frame) {
                            l.acceptable = true;
                            if pp.offline_mode {
                                pp.offline_mode = false;
                            }
                            pp.expect_first = false;
                        }
                    }
                }
                AppCall::Timeout { app, addr } if *app == self.dp.app => {
                    if let Some(k) = d.index_of_addr(*addr) {
                        self.per[k].outstanding = false;
                    }
                }
                _ => {}
            }
        }
        for e in p.dp_events {
            if e.app != self.dp.app {
                continue;
            }
            let Some((k, _, ev)) = e.periph else { continue };
            if k >= self.per.len() {
                continue;
            }
            let pp = &mut self.per[k];
            match ev {
                PeripheralEvent::Offline => {
                    self.n_offline += 1;
                    if pp.offline_mode {
                        w.violate(
                            self.prop,
                            "fcb.offline",
                            "second-offline-event",
                            Some(master),
                            format!("a second Offline event for #{} without an answered probe in between", pp.addr),
                        );
                        return;
                    }
                    // not prematurely: the current request was transmitted 1+limit times since the
                    // last clearly acceptable reply
                    let n = pp.last.as_ref().map(|l| if l.acceptable { 0 } else { pp.since_acceptable }).unwrap_or(0);
                    if n < 1 + retry_limit {
                        w.violate(
                            self.prop,
                            "fcb.retry",
                            "premature-offline",
                            Some(master),
                            format!("#{} declared Offline after only {} unanswered transmission(s); max_retry_limit is {}", pp.addr, n, retry_limit),
                        );
                        return;
                    }
                    if pp.last.as_ref().map(|l| !l.any_reply && l.n == 1 + retry_limit).unwrap_or(false) {
                        self.n_retry_limit_reached += 1;
                    }
                    pp.offline_mode = true;
                    pp.expect_first = true;
                    pp.last = None;
                    pp.since_acceptable = 0;
                    pp.offline_events += 1;
                }
                PeripheralEvent::ParameterError | PeripheralEvent::ConfigError => {
                    // the master considers it offline again and probes with diagnostics; the FCB
                    // sequence continues (a reply was accepted)
                    pp.offline_mode = true;
                }
                _ => {}
            }
        }
    }

    fn on_user(&mut self, _w: &World, st: usize, act: &UserAct) {
        if st != self.dp.st {
            return;
        }
        if let UserAct::ResetAddress { app, periph, .. } = act {
            if *app == self.dp.app && *periph < self.per.len() {
                let p = &mut self.per[*periph];
                p.last = None;
                p.expect_first = true;
                p.offline_mode = true;
                p.unanswered = 0;
                p.since_acceptable = 0;
                p.outstanding = false;
            }
        }
    }

    fn observer(&self) -> bool {
        true
    }

    fn report(&self, _w: &World, s: &mut Stats) {
        s.add("fcb.requests", self.n_requests);
        s.add("fcb.retransmissions", self.n_retrans);
        s.add("fcb.toggles_checked", self.n_toggles);
        s.add("fcb.first_requests", self.n_first);
        s.add("fcb.offline_events", self.n_offline);
        s.add("probe.retry_limit_reached_without_any_reply", self.n_retry_limit_reached);
    }
}

// ==========================================================================================
// C14

#[derive(Clone, Copy, Debug, PartialEq, Eq)]
enum Life {
    Dead,
    Live,
    Ready,
}

struct CycPer {
    life: Life,
    was_live: bool,
    was_running: bool,
    reset: bool,
}

pub struct CycleMonitor {
    prop: &'static str,
    dp: DpRef,
    per: Vec<CycPer>,
    /// Turns seen since the last cycle_completed: (peripheral index, signature of the request).
    cur_turn: Option<(usize, (Service, u8, bool, bool))>,
    turn_replied: bool,
    visited: Vec<usize>,
    pub n_cycles: u64,
    pub n_events: u64,
    pub n_turns: u64,
    pub n_two_events: u64,
    pub n_gc: u64,
    pub n_gc_mid_cycle: u64,
    pub n_add_mid_cycle: u64,
}

impl CycleMonitor {
    pub fn new(prop: &'static str, w: &World, dp: DpRef) -> Self {
        let n = periph_cfgs(w, dp).len();
        CycleMonitor {
            prop,
            dp,
            per: (0..n)
                .map(|_| CycPer {
                    life: Life::Dead,
                    was_live: false,
                    was_running: false,
                    reset: false,
                })
                .collect(),
            cur_turn: None,
            turn_replied: false,
            visited: Vec::new(),
            n_cycles: 0,
            n_events: 0,
            n_turns: 0,
            n_two_events: 0,
            n_gc: 0,
            n_gc_mid_cycle: 0,
            n_add_mid_cycle: 0,
        }
    }
}

impl Monitor for CycleMonitor {
    fn name(&self) -> &'static str {
        "cycle"
    }

    fn on_tx(&mut self, w: &World, idx: usize) {
        let bus = w.bus.borrow();
        let tx = &bus.txs[idx];
        if tx.sender != w.stations[self.dp.st].node || w.cur_tx_app != Some(self.dp.app) {
            return;
        }
        let Some(f) = tx.frame.as_ref() else { return };
        let Some(svc) = service_of(f) else { return };
        if svc == Service::GlobalControl {
            self.n_gc += 1;
            if !self.visited.is_empty() {
                self.n_gc_mid_cycle += 1;
            }
            return;
        }
        let Frame::Data { da, fc, .. } = f else { return };
        let Some(d) = w.stations[self.dp.st].apps.get(self.dp.app).and_then(|p| p.dp()) else { return };
        let Some(k) = d.index_of_addr(*da) else { return };
        let Fc::Request { fcv, fcb, req } = wire::fc_decode(*fc) else { return };
        let master = w.stations[self.dp.st].cfg.addr;
        let sig = (svc, req, fcv, fcb);
        match self.cur_turn {
            Some((ck, csig)) if ck == k && !self.turn_replied => {
                // same turn: must be a retransmission of the same request
                if csig != sig {
                    w.violate(
                        self.prop,
                        "cycle.turn",
                        "two-requests-in-one-turn",
                        Some(master),
                        format!("within one turn #{da} is sent two different requests: {:?} then {:?}", csig, sig),
                    );
                }
            }
            _ => {
                // a new turn
                self.n_turns += 1;
                if let Some(&last) = self.visited.last() {
                    if k <= last {
                        w.violate(
                            self.prop,
                            "cycle.order",
                            if k == last { "peripheral-visited-twice" } else { "slot-order" },
                            Some(master),
                            format!(
                                "peripheral in slot {k} (#{da}) gets a turn after the peripheral in slot {last} without a 'cycle completed' report in between (turns so far: {:?})",
                                self.visited
                            ),
                        );
                        return;
                    }
                }
                self.visited.push(k);
                self.cur_turn = Some((k, sig));
                self.turn_replied = false;
            }
        }
    }

    fn on_poll(&mut self, w: &World, p: &PollInfo) {
        if p.st != self.dp.st {
            return;
        }
        let master = w.stations[self.dp.st].cfg.addr;
        let Some(d) = w.stations[self.dp.st].apps.get(self.dp.app).and_then(|p| p.dp()) else { return };
        let mut replied: Option<usize> = None;
        for c in p.calls {
            if let AppCall::Reply { app, addr, .. } = c {
                if *app == self.dp.app {
                    replied = d.index_of_addr(*addr);
                    self.turn_replied = true;
                }
            }
        }
        if !p.events_taken {
            return;
        }
        let evs: Vec<_> = p.dp_events.iter().filter(|e| e.app == self.dp.app).collect();
        if evs.len() > 1 {
            self.n_two_events += 1;
        }
        let mut ev_for: Option<(usize, PeripheralEvent)> = None;
        for e in &evs {
            if e.cycle_completed {
                self.n_cycles += 1;
                self.visited.clear();
                self.cur_turn = None;
                self.turn_replied = false;
            }
            if let Some((k, _, ev)) = e.periph {
                self.n_events += 1;
                if k >= self.per.len() {
                    w.violate(self.prop, "cycle.events", "event-unknown-handle", Some(master), format!("event {} for an unknown handle", event_name(ev)));
                    return;
                }
                ev_for = Some((k, ev));
                let life = self.per[k].life;
                let addr = d.addrs[k];
                let bad = |why: &str| {
                    w.violate(
                        self.prop,
                        "cycle.events",
                        &format!("{}-in-{:?}", event_name(ev), life),
                        Some(master),
                        format!("event {} for #{addr} while its life-cycle state is {:?}: {why}", event_name(ev), life),
                    )
                };
                match ev {
                    PeripheralEvent::Online => {
                        if life != Life::Dead {
                            bad("Online is only possible after Offline or an error");
                            return;
                        }
                        self.per[k].life = Life::Live;
                    }
                    PeripheralEvent::Configured => {
                        // from Ready: re-validation after a "SAP not enabled" response
                        if life == Life::Dead {
                            bad("Configured needs a preceding Online");
                            return;
                        }
                        self.per[k].life = Life::Ready;
                    }
                    PeripheralEvent::DataExchanged | PeripheralEvent::Diagnostics => {
                        if life != Life::Ready {
                            bad("needs Online and Configured first");
                            return;
                        }
                    }
                    PeripheralEvent::Offline => {
                        if life == Life::Dead {
                            bad("Offline only while live");
                            return;
                        }
                        self.per[k].life = Life::Dead;
                    }
                    PeripheralEvent::ParameterError | PeripheralEvent::ConfigError => {
                        // during bring-up, or during a re-validation of a running peripheral
                        if life == Life::Dead {
                            bad("parameter/configuration errors are detected while validating a live peripheral");
                            return;
                        }
                        self.per[k].life = Life::Dead;
                    }
                }
                // cause: events born from a reply need a reply from that peripheral in this poll
                if matches!(ev, PeripheralEvent::Online | PeripheralEvent::Configured | PeripheralEvent::DataExchanged | PeripheralEvent::Diagnostics | PeripheralEvent::ParameterError | PeripheralEvent::ConfigError)
                    && replied != Some(k)
                {
                    w.violate(
                        self.prop,
                        "cycle.events",
                        "event-without-cause",
                        Some(master),
                        format!("event {} for #{addr} but no reply from it was delivered in this poll (duplicate or stale event)", event_name(ev)),
                    );
                    return;
                }
            }
        }
        // accessors vs. life cycle, flips vs. events
        for (k, h) in d.handles.iter().enumerate() {
            let Some((_, per)) = d.master.iter().find(|(hh, _)| hh == h) else { continue };
            let (live, running) = (per.is_live(), per.is_running());
            let addr = d.addrs[k];
            let st = &mut self.per[k];
            if st.reset {
                // re-created by the user: no event by design
                st.reset = false;
                st.life = Life::Dead;
                st.was_live = live;
                st.was_running = running;
                continue;
            }
            if live != (st.life != Life::Dead) {
                w.violate(
                    self.prop,
                    "cycle.accessors",
                    "is-live-vs-events",
                    Some(master),
                    format!("#{addr}: is_live()={live} but the events reported so far put it in {:?} (an event was lost or duplicated)", st.life),
                );
                return;
            }
            if running && st.life != Life::Ready {
                w.violate(
                    self.prop,
                    "cycle.accessors",
                    "is-running-vs-events",
                    Some(master),
                    format!("#{addr}: is_running() but the events reported so far put it in {:?}", st.life),
                );
                return;
            }
            if running && !st.was_running && !matches!(ev_for, Some((kk, PeripheralEvent::DataExchanged)) if kk == k) {
                w.violate(
                    self.prop,
                    "cycle.accessors",
                    "running-without-data-exchanged",
                    Some(master),
                    format!("#{addr}: is_running() turned true without a DataExchanged event in that poll"),
                );
                return;
            }
            if !running && matches!(ev_for, Some((kk, PeripheralEvent::DataExchanged)) if kk == k) {
                w.violate(
                    self.prop,
                    "cycle.accessors",
                    "data-exchanged-but-not-running",
                    Some(master),
                    format!("#{addr}: a DataExchanged event was reported in this poll but is_running() is false after it"),
                );
                return;
            }
            st.was_live = live;
            st.was_running = running;
        }
    }

    fn on_user(&mut self, _w: &World, st: usize, act: &UserAct) {
        if st != self.dp.st {
            return;
        }
        if let UserAct::ResetAddress { app, periph, .. } = act {
            if *app == self.dp.app && *periph < self.per.len() {
                self.per[*periph].reset = true;
                if matches!(self.cur_turn, Some((k, _)) if k == *periph) {
                    // the turn's request is forgotten together with the peripheral's state: the
                    // re-created peripheral may start its turn again
                    self.cur_turn = None;
                    if self.visited.last() == Some(periph) {
                        self.visited.pop();
                    }
                }
            }
        }
        if let UserAct::AddPeripheral { app, .. } = act {
            // the new peripheral takes the next slot (nothing is ever removed), i.e. one after
            // every slot visited so far: the order and once-per-cycle rules hold unchanged
            if *app == self.dp.app && !self.visited.is_empty() {
                self.n_add_mid_cycle += 1;
            }
        }
    }

    fn observer(&self) -> bool {
        true
    }

    fn report(&self, _w: &World, s: &mut Stats) {
        s.add("cycle.cycles_completed", self.n_cycles);
        s.add("cycle.turns", self.n_turns);
        s.add("cycle.peripheral_events", self.n_events);
        s.add("cycle.global_control_telegrams", self.n_gc);
        s.add("probe.global_control_in_the_middle_of_a_cycle", self.n_gc_mid_cycle);
        s.add("probe.dp_master_add_in_the_middle_of_a_cycle", self.n_add_mid_cycle);
    }
}

// ==========================================================================================
// C07

pub struct LivenessMonitor {
    prop: &'static str,
    dp: DpRef,
    quiet_from: u64,
    deadline: u64,
    checked: bool,
    /// Events per peripheral since the last Offline (or start).
    since_offline: Vec<Vec<PeripheralEvent>>,
    went_offline: Vec<bool>,
    offline_count_since_online: Vec<u32>,
    cycles_after_quiet: u64,
    recovered_at_cycle: Vec<Option<u64>>,
    pub bound_cycles: u64,
}

impl LivenessMonitor {
    pub fn new(prop: &'static str, w: &World, dp: DpRef, quiet_from_us: u64, bound_us: u64, bound_cycles: u64) -> Self {
        let n = periph_cfgs(w, dp).len();
        LivenessMonitor {
            prop,
            dp,
            quiet_from: w.us(quiet_from_us),
            deadline: w.us(quiet_from_us + bound_us),
            checked: false,
            since_offline: vec![Vec::new(); n],
            went_offline: vec![false; n],
            offline_count_since_online: vec![0; n],
            cycles_after_quiet: 0,
            recovered_at_cycle: vec![None; n],
            bound_cycles,
        }
    }

    /// The reference slave behind a peripheral, if it is powered, conforming and matches.
    fn healthy_slave(&self, w: &World, cfg: &PeriphCfg, addr: u8) -> Option<bool> {
        let sl = w.slaves.iter().find(|s| s.cfg.addr == addr)?;
        let matches = sl.cfg.dp
            && sl.cfg.ident == cfg.ident
            && Some(&sl.cfg.cfg) == cfg.config.as_ref()
            && cfg.user_prm.is_some()
            && sl.cfg.prm_len.map(|l| Some(l) == cfg.user_prm.as_ref().map(|u| u.len())).unwrap_or(true)
            && sl.cfg.in_len == cfg.in_len
            && sl.cfg.out_len == cfg.out_len;
        Some(sl.powered && matches && sl.quiescent())
    }

    fn verdict(&mut self, w: &World) {
        self.checked = true;
        let master = w.stations[self.dp.st].cfg.addr;
        let Some(d) = w.stations[self.dp.st].apps.get(self.dp.app).and_then(|p| p.dp()) else { return };
        let cfgs = periph_cfgs(w, self.dp);
        for (k, h) in d.handles.iter().enumerate() {
            let Some((_, per)) = d.master.iter().find(|(hh, _)| hh == h) else { continue };
            let addr = d.addrs[k];
            if cfgs[k].user_prm.is_none() || cfgs[k].config.is_none() {
                // the master waits for the user to supply parameters / configuration: no claim
                continue;
            }
            match self.healthy_slave(w, &cfgs[k], addr) {
                Some(true) => {
                    if !per.is_running() {
                        w.violate(
                            self.prop,
                            "liveness.recovery",
                            "healthy-peripheral-not-running",
                            Some(master),
                            format!(
                                "#{addr} behaves as a conforming, matching DP slave since {} us but is not in data exchange {} us ({} DP cycles) later (is_live={}, events since its last Offline: {:?})",
                                w.to_us(self.quiet_from),
                                w.to_us(w.now - self.quiet_from),
                                self.cycles_after_quiet,
                                per.is_live(),
                                self.since_offline[k].iter().map(|e| event_name(*e)).collect::<Vec<_>>()
                            ),
                        );
                        return;
                    }
                    // ... and so must the slave be: the master's belief alone is not data exchange
                    if let Some(sl) = w.slaves.iter().find(|s| s.cfg.addr == addr) {
                        if sl.state != crate::slave::SlaveState::DataExch || sl.master != Some(master) {
                            w.violate(
                                self.prop,
                                "liveness.recovery",
                                "running-but-slave-not-in-data-exchange",
                                Some(master),
                                format!(
                                    "the master reports #{addr} as running {} us ({} DP cycles) after the last fault, but the conforming slave is in state {:?} (locked by {:?}) and is not exchanging data",
                                    w.to_us(w.now - self.quiet_from),
                                    self.cycles_after_quiet,
                                    sl.state,
                                    sl.master
                                ),
                            );
                            return;
                        }
                    }
                    if self.went_offline[k] {
                        let ev = &self.since_offline[k];
                        let on = ev.iter().position(|e| *e == PeripheralEvent::Online);
                        let cf = ev.iter().position(|e| *e == PeripheralEvent::Configured);
                        if on.is_none() || cf.is_none() || on > cf {
                            w.violate(
                                self.prop,
                                "liveness.events",
                                "recovered-without-online-configured",
                                Some(master),
                                format!("#{addr} is running again but Online/Configured were not reported after its Offline: {:?}", ev.iter().map(|e| event_name(*e)).collect::<Vec<_>>()),
                            );
                            return;
                        }
                    }
                }
                Some(false) | None => {
                    // switched off (or absent): must be reported offline
                    let sl = w.slaves.iter().find(|s| s.cfg.addr == addr);
                    let off = sl.map(|s| !s.powered).unwrap_or(true);
                    if off && per.is_live() {
                        w.violate(
                            self.prop,
                            "liveness.offline",
                            "silent-peripheral-still-live",
                            Some(master),
                            format!("#{addr} has not answered since {} us but is_live() is still true", w.to_us(self.quiet_from)),
                        );
                        return;
                    }
                }
            }
        }
    }
}

impl Monitor for LivenessMonitor {
    fn name(&self) -> &'static str {
        "liveness"
    }

    fn on_poll(&mut self, w: &World, p: &PollInfo) {
        if p.st != self.dp.st {
            return;
        }
        for e in p.dp_events {
            if e.app != self.dp.app {
                continue;
            }
            if e.cycle_completed && w.now >= self.quiet_from {
                self.cycles_after_quiet += 1;
            }
            if let Some((k, _, ev)) = e.periph {
                if k < self.since_offline.len() {
                    if ev == PeripheralEvent::Offline {
                        self.since_offline[k].clear();
                        self.went_offline[k] = true;
                        self.offline_count_since_online[k] += 1;
                    } else {
                        if ev == PeripheralEvent::Online {
                            self.offline_count_since_online[k] = 0;
                        }
                        if self.since_offline[k].len() < 16 {
                            self.since_offline[k].push(ev);
                        }
                    }
                }
            }
        }
        if w.now >= self.quiet_from && !self.checked {
            // record when every healthy peripheral is running (for the observed/allowed ratio)
            if let Some(d) = w.stations[self.dp.st].apps.get(self.dp.app).and_then(|p| p.dp()) {
                for (k, h) in d.handles.iter().enumerate() {
                    if self.recovered_at_cycle[k].is_none() {
                        if let Some((_, per)) = d.master.iter().find(|(hh, _)| hh == h) {
                            if per.is_running() {
                                self.recovered_at_cycle[k] = Some(self.cycles_after_quiet);
                            }
                        }
                    }
                }
            }
        }
        if w.now >= self.deadline && !self.checked {
            self.verdict(w);
        }
    }

    fn finish(&mut self, w: &World) {
        if !self.checked && w.now >= self.deadline {
            self.verdict(w);
        }
    }

    fn done(&self, _w: &World) -> bool {
        self.checked
    }

    fn report(&self, _w: &World, s: &mut Stats) {
        if self.checked {
            s.inc("liveness.verdicts");
        }
        s.add("liveness.cycles_after_quiet", self.cycles_after_quiet);
        for r in self.recovered_at_cycle.iter().flatten() {
            s.max("liveness.max_cycles_to_recover_over_bound", *r as f64 / self.bound_cycles.max(1) as f64);
        }
        s.add("liveness.peripherals_that_went_offline", self.went_offline.iter().filter(|b| **b).count() as u64);
    }
}
