//! R7 — application call model (C15) and token hold time / rotation monitor (C13).

use crate::apps::AppCall;
use crate::bus::BIT;
use crate::scenario::{AppCfg, Appetite};
use crate::wire::Frame;
use crate::world::{Monitor, PollInfo, StationEv, Stats, World};

// ==========================================================================================
// C15

struct AppSt {
    n_apps: usize,
    /// (app, addr) of the request whose reply/time-out is still due.
    outstanding: Option<(usize, u8)>,
    /// Token visit counter; bumped whenever a token addressed to this station appears on the bus.
    visit: u64,
    /// Visit in which the outstanding request was sent.
    out_visit: u64,
    /// Last decision of the application that was asked last: Some((app, sent?)).
    last: Option<(usize, bool)>,
    /// Which applications declined in this visit.
    declined: u64,
    n_declined: usize,
    visit_of_declines: u64,
    /// The station consumed a token addressed to it (or sent one to itself) and has not passed it
    /// on since.  After a disturbance (a late reply colliding with the next telegram) two
    /// stations can hold a token each for a while; each of them "holds the token".
    has_token: bool,
}

pub struct AppCallMonitor {
    prop: &'static str,
    holder: Option<u8>,
    st: Vec<AppSt>,
    pub n_tx_calls: u64,
    pub n_sent: u64,
    pub n_replies: u64,
    pub n_timeouts: u64,
    pub n_rr_steps: u64,
    pub n_abandoned: u64,
    pub n_multi_app_visits: u64,
}

impl AppCallMonitor {
    pub fn new(prop: &'static str, w: &World) -> Self {
        AppCallMonitor {
            prop,
            holder: None,
            st: w
                .stations
                .iter()
                .map(|s| AppSt {
                    n_apps: s.cfg.apps.len(),
                    outstanding: None,
                    visit: 0,
                    out_visit: 0,
                    last: None,
                    declined: 0,
                    n_declined: 0,
                    visit_of_declines: 0,
                    has_token: false,
                })
                .collect(),
            n_tx_calls: 0,
            n_sent: 0,
            n_replies: 0,
            n_timeouts: 0,
            n_rr_steps: 0,
            n_abandoned: 0,
            n_multi_app_visits: 0,
        }
    }
}

impl Monitor for AppCallMonitor {
    fn name(&self) -> &'static str {
        "appcalls"
    }

    fn on_tx(&mut self, w: &World, idx: usize) {
        let bus = w.bus.borrow();
        let tx = &bus.txs[idx];
        if let Some(Frame::Token { da, sa }) = &tx.frame {
            self.holder = Some(*da);
            if let Some(i) = w.station_by_addr(*da) {
                self.st[i].visit += 1;
            }
            if tx.real && w.stations[tx.sender].cfg.addr == *sa {
                self.st[tx.sender].has_token = *da == *sa;
            }
        }
    }

    fn on_station(&mut self, w: &World, st: usize, ev: &StationEv) {
        if matches!(ev, StationEv::Online | StationEv::Offline | StationEv::Crash | StationEv::Restart) {
            let s = &mut self.st[st];
            s.outstanding = None;
            s.last = None;
            s.declined = 0;
            s.n_declined = 0;
            s.has_token = false;
            // (the application list may have been exchanged while the station was offline)
            s.n_apps = w.stations[st].apps.len();
        }
    }

    fn on_poll(&mut self, w: &World, p: &PollInfo) {
        let addr = w.stations[p.st].cfg.addr;
        let holder = self.holder;
        let s = &mut self.st[p.st];
        for r in p.rx {
            if let crate::phy::RxVerdict::Consumed { frame: Frame::Token { da, sa }, .. } = &r.verdict {
                if *da == addr && *sa != addr {
                    if holder != Some(addr) {
                        // a token from an earlier moment (e.g. buffered while the station was busy)
                        s.visit += 1;
                    }
                    s.has_token = true;
                }
            }
        }
        for c in p.calls {
            match c {
                AppCall::Tx { app, sent, .. } => {
                    self.n_tx_calls += 1;
                    if holder != Some(addr) && !s.has_token {
                        w.violate(
                            self.prop,
                            "apps.token",
                            "asked-without-token",
                            Some(addr),
                            format!("application {app} of #{addr} was asked for a telegram although the token is with {:?}", holder),
                        );
                        return;
                    }
                    if let Some((oa, oaddr)) = s.outstanding {
                        if s.out_visit == s.visit {
                            w.violate(
                                self.prop,
                                "apps.outstanding",
                                "asked-while-reply-outstanding",
                                Some(addr),
                                format!("application {app} of #{addr} was asked for a telegram while the reply from #{oaddr} to application {oa} is still outstanding"),
                            );
                            return;
                        }
                        // the token was lost and came back: the old request was abandoned
                        self.n_abandoned += 1;
                        s.outstanding = None;
                    }
                    // round robin
                    if s.visit_of_declines != s.visit {
                        s.visit_of_declines = s.visit;
                        s.declined = 0;
                        s.n_declined = 0;
                    }
                    if s.n_apps > 0 {
                        if s.n_declined >= s.n_apps {
                            w.violate(
                                self.prop,
                                "apps.roundrobin",
                                "asked-after-all-declined",
                                Some(addr),
                                format!("application {app} of #{addr} was asked again in a token visit in which all {} applications had already declined", s.n_apps),
                            );
                            return;
                        }
                        if let Some((la, lsent)) = s.last {
                            let want = if lsent { la } else { (la + 1) % s.n_apps };
                            self.n_rr_steps += 1;
                            if *app != want {
                                w.violate(
                                    self.prop,
                                    "apps.roundrobin",
                                    "wrong-application-asked",
                                    Some(addr),
                                    format!(
                                        "#{addr}: application {la} {} last, so application {want} is next, but application {app} was asked",
                                        if lsent { "sent" } else { "declined" }
                                    ),
                                );
                                return;
                            }
                        }
                    }
                    match sent {
                        Some((_, reply_from)) => {
                            self.n_sent += 1;
                            s.last = Some((*app, true));
                            // whether a reply is outstanding is read off the telegram on the wire
                            // (R1), not taken from the stack's own classification of the service
                            let wire_reply_from = {
                                let bus = w.bus.borrow();
                                p.txs.first().and_then(|x| bus.txs[*x].frame.as_ref().map(|f| (f.request_expecting_reply().is_some(), f.da()))).and_then(|(exp, da)| match (exp, da) {
                                    (true, Some(a)) if a & 0x7F != 127 => Some(a & 0x7F),
                                    _ => None,
                                })
                            };
                            let _ = reply_from;
                            if let Some(a) = wire_reply_from {
                                s.outstanding = Some((*app, a));
                                s.out_visit = s.visit;
                            }
                        }
                        None => {
                            s.last = Some((*app, false));
                            if s.declined >> app & 1 == 1 {
                                w.violate(
                                    self.prop,
                                    "apps.roundrobin",
                                    "declined-twice-in-one-visit",
                                    Some(addr),
                                    format!("application {app} of #{addr} was asked (and declined) twice in one token visit"),
                                );
                                return;
                            }
                            s.declined |= 1 << app;
                            s.n_declined += 1;
                            if s.n_apps > 1 && s.n_declined == s.n_apps {
                                self.n_multi_app_visits += 1;
                            }
                        }
                    }
                }
                AppCall::Reply { app, addr: raddr, frame } => {
                    self.n_replies += 1;
                    match s.outstanding.take() {
                        Some((oa, oaddr)) if oa == *app && oaddr == *raddr => {}
                        other => {
                            w.violate(
                                self.prop,
                                "apps.matching",
                                "reply-without-request",
                                Some(addr),
                                format!("application {app} of #{addr} got a reply from #{raddr} but the outstanding request is {:?}", other),
                            );
                            return;
                        }
                    }
                    let ok = match frame {
                        Frame::Sc => true,
                        Frame::Data { sa, da, fc, .. } => *sa == *raddr && *da == addr && fc & 0x40 == 0,
                        Frame::Token { .. } => false,
                    };
                    if !ok {
                        w.violate(
                            self.prop,
                            "apps.matching",
                            "inadmissible-reply-delivered",
                            Some(addr),
                            format!("application {app} of #{addr} waiting for #{raddr} was handed {}", frame.short()),
                        );
                        return;
                    }
                }
                AppCall::Timeout { app, addr: raddr } => {
                    self.n_timeouts += 1;
                    match s.outstanding.take() {
                        Some((oa, oaddr)) if oa == *app && oaddr == *raddr => {}
                        other => {
                            w.violate(
                                self.prop,
                                "apps.matching",
                                "timeout-without-request",
                                Some(addr),
                                format!("application {app} of #{addr} got a time-out for #{raddr} but the outstanding request is {:?}", other),
                            );
                            return;
                        }
                    }
                }
            }
        }
    }

    fn observer(&self) -> bool {
        true
    }

    fn report(&self, _w: &World, s: &mut Stats) {
        s.add("apps.transmit_callbacks", self.n_tx_calls);
        s.add("apps.requests_sent", self.n_sent);
        s.add("apps.replies_delivered", self.n_replies);
        s.add("apps.timeouts_delivered", self.n_timeouts);
        s.add("apps.round_robin_steps_checked", self.n_rr_steps);
        s.add("probe.request_abandoned_with_token_loss", self.n_abandoned);
        s.add("probe.all_of_several_applications_declined_in_one_visit", self.n_multi_app_visits);
    }
}

// ==========================================================================================
// C13

struct HoldSt {
    /// Wire time (ticks) the station can have seen its current token at the earliest.
    w_cur: Option<u64>,
    /// ... and the previous one.
    w_prev: Option<u64>,
    /// Application requests started in the current visit.
    reqs_in_visit: u32,
    visits: u64,
    /// An application of this station is always ready to send (and honours nothing).
    greedy: bool,
    last_receipt_for_rotation: Option<u64>,
    /// Something irregular happened in this rotation (retry, join): skip the rotation bound once.
    skip_rotation: bool,
    /// Claiming the token (two self-addressed tokens and the GAP scan): applications are not
    /// asked until the scan is over.
    claim_phase: bool,
    /// Token telegrams sent since the claim started (two claim tokens, then the pass after the scan).
    claim_tokens: u8,
    /// Own FDL status requests that no application asked for (GAP polls) in this token visit.
    gap_polls_in_visit: u32,
}

pub struct HoldMonitor {
    prop: &'static str,
    st: Vec<HoldSt>,
    holder: Option<u8>,
    last_token: Option<(u8, u8, usize)>,
    /// Rotation bound in ticks, valid once the ring is stable.
    rot_bound: u64,
    stable_from: u64,
    pub n_visits: u64,
    pub n_late_visits: u64,
    pub n_reqs_checked: u64,
    pub n_rotations: u64,
    pub max_rot_ratio: f64,
    pub max_hold_ratio: f64,
    pub n_starve_checked: u64,
    pub n_gap_polls: u64,
    /// Largest token-lost time-out of any station: a legitimate recovery takes that long.
    timeout_max: u64,
    /// Only the hold-time clause (used by C15: "the token is passed once ... the hold time is over").
    only_hold_time: bool,
}

impl HoldMonitor {
    pub fn new(prop: &'static str, w: &World, stable_from_us: u64) -> Self {
        let n = w.stations.iter().filter(|s| !s.cfg.plan.is_empty()).count() as u64;
        let slot = w.stations.first().map(|s| u64::from(s.cfg.slot_bits)).unwrap_or(100);
        let p_max = w.stations.iter().map(|s| w.us(s.cfg.p_max_us)).max().unwrap_or(0);
        let ttr_max = w.stations.iter().map(|s| u64::from(s.cfg.ttr)).max().unwrap_or(0);
        // one message cycle: two maximum frames, the slot time, pauses, reaction
        let c_msg = (2 * 256 * 11 + slot + 2 * 33) * BIT + 4 * p_max;
        let c_gap = (6 * 11 + slot + 33 + 6 * 11) * BIT + 3 * p_max;
        let c_tok = (3 * 11 + 33) * BIT + 3 * p_max;
        let n_apps_max = w.stations.iter().map(|s| s.cfg.apps.len() as u64).max().unwrap_or(1).max(1);
        let rot_bound = ttr_max * BIT + n * (n_apps_max * c_msg + c_gap + c_tok) + n * slot * BIT;
        HoldMonitor {
            prop,
            st: w
                .stations
                .iter()
                .map(|s| HoldSt {
                    w_cur: None,
                    w_prev: None,
                    reqs_in_visit: 0,
                    visits: 0,
                    greedy: s.cfg.apps.iter().any(|a| matches!(a, AppCfg::Traffic(t) if t.appetite == Appetite::Always && !t.targets.is_empty() && !t.kinds.is_empty())),
                    last_receipt_for_rotation: None,
                    skip_rotation: true,
                    claim_phase: false,
                    claim_tokens: 0,
                    gap_polls_in_visit: 0,
                })
                .collect(),
            holder: None,
            last_token: None,
            rot_bound,
            stable_from: w.us(stable_from_us),
            n_visits: 0,
            n_late_visits: 0,
            n_reqs_checked: 0,
            n_rotations: 0,
            max_rot_ratio: 0.0,
            max_hold_ratio: 0.0,
            n_starve_checked: 0,
            n_gap_polls: 0,
            timeout_max: (0..w.stations.len()).map(|i| super::token_lost_timeout_ticks(w, i)).max().unwrap_or(0),
            only_hold_time: false,
        }
    }

    pub fn only_hold_time(mut self) -> Self {
        self.only_hold_time = true;
        self
    }
}

impl Monitor for HoldMonitor {
    fn name(&self) -> &'static str {
        "hold"
    }

    fn on_station(&mut self, _w: &World, st: usize, ev: &StationEv) {
        if matches!(ev, StationEv::Online | StationEv::Offline | StationEv::Crash | StationEv::Restart) {
            let s = &mut self.st[st];
            s.w_cur = None;
            s.w_prev = None;
            s.reqs_in_visit = 0;
            s.last_receipt_for_rotation = None;
            // population change: every station's current rotation is irregular
            for x in self.st.iter_mut() {
                x.skip_rotation = true;
            }
        }
    }

    fn on_tx(&mut self, w: &World, idx: usize) {
        let bus = w.bus.borrow();
        let tx = &bus.txs[idx];
        let Some(f) = tx.frame.as_ref() else { return };
        if let Frame::Token { da, sa } = f {
            // a repeated token (retry) makes this rotation irregular for everybody
            if matches!(self.last_token, Some((lsa, lda, li)) if lsa == *sa && lda == *da && li + 1 == idx) || (*sa == *da && self.holder != Some(*sa)) {
                for x in self.st.iter_mut() {
                    x.skip_rotation = true;
                }
            }
            self.last_token = Some((*sa, *da, idx));
            // the rotation bound speaks about a stable ring only
            if !crate::monitors::ring::agreement(w) {
                for x in self.st.iter_mut() {
                    x.skip_rotation = true;
                }
            }
            // starvation: the visit that ends now
            if let Some(i) = w.station_by_addr(*sa) {
                let was_claim = self.st[i].claim_phase;
                // a claim: a self-addressed token by a station that does not hold the token, or
                // (a lone station that backed off after an unexpected answer) after a silence of its
                // whole time-out
                let silent_since = bus.txs[..idx].iter().rev().take(32).map(|t| t.end()).max().unwrap_or(0);
                let timeout = super::token_lost_timeout_ticks(w, i);
                let after_timeout = tx.start.saturating_sub(silent_since) + super::tol_ticks(w, i, 2, timeout) >= timeout;
                if *sa == *da && (self.holder != Some(*sa) || after_timeout) && tx.sender == w.stations[i].node {
                    self.st[i].claim_phase = true;
                    self.st[i].claim_tokens = 0;
                    // what follows a claim is not a regular rotation
                    for x in self.st.iter_mut() {
                        x.skip_rotation = true;
                    }
                } else if *sa != *da {
                    self.st[i].claim_phase = false;
                }
                if self.holder == Some(*sa) && tx.sender == w.stations[i].node {
                    let s = &self.st[i];
                    if s.greedy && !self.only_hold_time && !s.claim_phase && !was_claim && s.w_cur.is_some() && s.visits > 1 && tx.start >= self.stable_from {
                        self.n_starve_checked += 1;
                        if s.reqs_in_visit == 0 {
                            w.violate(
                                self.prop,
                                "hold.starvation",
                                "willing-application-not-served",
                                Some(*sa),
                                format!("#{sa} passes the token on although its always-ready application was not allowed a single message cycle in this token visit"),
                            );
                            return;
                        }
                    }
                }
            }
            if let Some(i) = w.station_by_addr(*sa) {
                if self.st[i].claim_phase && tx.sender == w.stations[i].node {
                    // two claim tokens, the scan of the whole GAP, then the first regular pass
                    self.st[i].claim_tokens += 1;
                    if self.st[i].claim_tokens >= 3 {
                        self.st[i].claim_phase = false;
                    }
                }
            }
            self.holder = Some(*da);
            if let Some(i) = w.station_by_addr(*da) {
                let own = tx.sender == w.stations[i].node;
                // earliest instant the station can refer to as "token time"
                let wt = if own { tx.start } else { tx.end() };
                let s = &mut self.st[i];
                {
                    s.w_prev = s.w_cur;
                    s.w_cur = Some(wt);
                    s.reqs_in_visit = 0;
                    s.gap_polls_in_visit = 0;
                    s.visits += 1;
                    self.n_visits += 1;
                    // rotation bound
                    if let Some(prev) = s.last_receipt_for_rotation {
                        if !s.skip_rotation && !self.only_hold_time && prev >= self.stable_from {
                            let rot = wt.saturating_sub(prev);
                            self.n_rotations += 1;
                            let ratio = rot as f64 / self.rot_bound as f64;
                            if ratio > self.max_rot_ratio {
                                self.max_rot_ratio = ratio;
                            }
                            if rot > self.rot_bound {
                                w.violate(
                                    self.prop,
                                    "hold.rotation",
                                    "rotation-too-long",
                                    Some(*da),
                                    format!(
                                        "#{da} gets the token again after {} bit times; bound TTR + one message cycle and GAP poll per station = {} bit times",
                                        rot / BIT,
                                        self.rot_bound / BIT
                                    ),
                                );
                                return;
                            }
                        }
                    }
                    s.last_receipt_for_rotation = Some(wt);
                    s.skip_rotation = false;
                }
            }
            return;
        }
        // GAP maintenance of the token holder: "one bounded message cycle and GAP poll per station"
        if tx.real && w.cur_tx_app.is_none() && f.is_fdl_status_request() {
            let i = tx.sender;
            let addr = w.stations[i].cfg.addr;
            let s = &mut self.st[i];
            s.gap_polls_in_visit += 1;
            self.n_gap_polls += 1;
            if s.gap_polls_in_visit >= 2 && !s.claim_phase && !self.only_hold_time && self.holder == Some(addr) {
                w.violate(
                    self.prop,
                    "hold.gap",
                    "several-gap-polls-in-one-visit",
                    Some(addr),
                    format!("#{addr} sends GAP poll no. {} of this token visit ({}); outside the scan that follows a claim a visit has room for one", s.gap_polls_in_visit, f.short()),
                );
            }
            return;
        }
        // application requests of the token holder
        if !tx.real || w.cur_tx_app.is_none() || !f.is_request() {
            return;
        }
        let i = tx.sender;
        let addr = w.stations[i].cfg.addr;
        let cfg = &w.stations[i].cfg;
        let s = &mut self.st[i];
        s.reqs_in_visit += 1;
        s.claim_phase = false;
        if s.reqs_in_visit >= 2 {
            if let Some(wp) = s.w_prev {
                // the station's own reference for the previous token is at most one poll period
                // (plus RX chunking) later than the wire; its clock may be skewed
                let ttr = u64::from(cfg.ttr) * BIT;
                // (a PHY that reports the end of the station's own previous transmission late keeps
                // it from looking at its receive buffer that long)
                let late_tx_done = match cfg.tx_done {
                    crate::scenario::TxDoneCfg::LateUs(d) => d,
                    _ => 0,
                };
                let p = w.us(cfg.p_max_us + cfg.rx_chunk_us + late_tx_done + 2);
                let skew = (u128::from(ttr) * u128::from(cfg.skew_ppm.unsigned_abs()) / 1_000_000) as u64 + w.us(2);
                let deadline = wp + ttr + p + skew;
                self.n_reqs_checked += 1;
                let used = tx.start.saturating_sub(wp) as f64 / (ttr + p + skew) as f64;
                if used > self.max_hold_ratio {
                    self.max_hold_ratio = used;
                }
                if tx.start >= deadline {
                    w.violate(
                        self.prop,
                        "hold.time",
                        "request-after-hold-time",
                        Some(addr),
                        format!(
                            "#{addr} starts message cycle no. {} of this token visit {} bit times after its previous token receipt; TTR is {} bit times (only the first cycle of a visit is exempt)",
                            s.reqs_in_visit,
                            tx.start.saturating_sub(wp) / BIT,
                            cfg.ttr
                        ),
                    );
                }
            }
        } else if let (Some(wp), Some(_)) = (s.w_prev, s.w_cur) {
            if tx.start >= wp + u64::from(cfg.ttr) * BIT {
                self.n_late_visits += 1;
            }
        }
    }

    fn on_poll(&mut self, w: &World, p: &PollInfo) {
        // losing the ring membership resets the reference
        if p.pre.in_ring && !p.post.in_ring {
            let s = &mut self.st[p.st];
            s.w_cur = None;
            s.w_prev = None;
        }
        // the rotation bound also holds for a token that does not come back at all
        if !self.only_hold_time && p.post.in_ring && w.now >= self.stable_from {
            let s = &mut self.st[p.st];
            if let Some(prev) = s.last_receipt_for_rotation {
                if !s.skip_rotation && prev >= self.stable_from && w.now.saturating_sub(prev) > (2 * self.rot_bound).max(2 * self.timeout_max + self.rot_bound) && self.holder != Some(w.stations[p.st].cfg.addr) && crate::monitors::ring::agreement(w) {
                    s.skip_rotation = true;
                    w.violate(
                        self.prop,
                        "hold.rotation",
                        "token-does-not-return",
                        Some(w.stations[p.st].cfg.addr),
                        format!(
                            "#{} has not seen the token for {} bit times although the ring is unchanged; bound TTR + one message cycle and GAP poll per station = {} bit times (token last sent to {:?})",
                            w.stations[p.st].cfg.addr,
                            w.now.saturating_sub(prev) / BIT,
                            self.rot_bound / BIT,
                            self.holder
                        ),
                    );
                }
            }
        }
    }

    fn observer(&self) -> bool {
        true
    }

    fn report(&self, _w: &World, s: &mut Stats) {
        s.add("hold.token_visits", self.n_visits);
        s.add("hold.requests_checked_against_hold_time", self.n_reqs_checked);
        s.add("hold.rotations_checked", self.n_rotations);
        s.add("hold.starvation_visits_checked", self.n_starve_checked);
        s.add("hold.gap_polls_counted", self.n_gap_polls);
        s.add("probe.hold_time_already_over_at_first_cycle", self.n_late_visits);
        s.max("hold.max_rotation_over_bound", self.max_rot_ratio);
        s.max("hold.max_request_start_over_hold_time", self.max_hold_ratio);
    }
}
