//! C02 / C06 — the ring forms (or recovers), all stations agree, and the agreement is stable.

use crate::phy::RxVerdict;
use crate::wire::Frame;
use crate::world::{Monitor, PollInfo, StationEv, World};

#[derive(Clone, Copy, Debug, PartialEq, Eq)]
enum Phase {
    /// Population still changing / faults still flowing.
    Disturbed,
    Converging,
    Stable,
    Done,
}

pub struct RingMonitor {
    prop: &'static str,
    phase: Phase,
    quiet_from: u64,
    deadline: u64,
    stable_for: u64,
    pub converged_at: Option<u64>,
    /// Members: stations that must be in the ring after `quiet_from`.
    member: Vec<bool>,
    /// Per station: consumed telegrams carrying its own address as source while listening.
    own_sa_seen: Vec<u32>,
    last_token_da: Option<u8>,
    pub tokens_in_stable: u64,
    pub rotations_in_stable: u64,
    recovery: bool,
    disagreement: String,
    /// Never raise violations; only used to end a run (C01).
    silent: bool,
    /// Agreement counts only once everything that was in flight at the population change (one
    /// telegram of maximum length, delivered in RX chunks, consumed a poll later) has been seen.
    settle: u64,
    settle_from: u64,
    /// Index of the last transmission at the time a station consumed a token telegram that was
    /// older than its own latest transmission (the predecessor's repeated pass, accepted as a
    /// second token after the station had used the first: observation O5).
    stale_token_at_tx: Option<usize>,
    /// Per station: polls in a row that dropped undecodable data without a single telegram being
    /// decoded in between (a receiver that has lost the frame boundaries).
    discard_run: Vec<u32>,
}

impl RingMonitor {
    pub fn new(prop: &'static str, w: &World, quiet_from_us: u64, bound_us: u64, stable_us: u64, recovery: bool) -> Self {
        let n = w.stations.len();
        RingMonitor {
            prop,
            phase: Phase::Disturbed,
            quiet_from: w.us(quiet_from_us),
            deadline: w.us(quiet_from_us + bound_us),
            stable_for: w.us(stable_us),
            converged_at: None,
            member: vec![false; n],
            own_sa_seen: vec![0; n],
            last_token_da: None,
            tokens_in_stable: 0,
            rotations_in_stable: 0,
            recovery,
            disagreement: String::new(),
            silent: false,
            settle: 256 * 11 * crate::bus::BIT + 2 * w.stations.iter().map(|s| w.us(s.cfg.p_max_us + s.cfg.rx_chunk_us)).max().unwrap_or(0),
            settle_from: w.us(quiet_from_us),
            stale_token_at_tx: None,
            discard_run: vec![0; n],
        }
    }

    pub fn silent(mut self) -> Self {
        self.silent = true;
        self
    }

    fn violate(&self, w: &World, oracle: &str, sig: &str, st: Option<u8>, detail: String) {
        if !self.silent {
            w.violate(self.prop, oracle, sig, st, detail);
        }
    }

    fn members(&self, w: &World) -> u128 {
        let mut m = 0u128;
        for (i, s) in w.stations.iter().enumerate() {
            if self.member[i] {
                m |= 1u128 << s.cfg.addr;
            }
        }
        m
    }

    fn succ(set: u128, a: u8) -> u8 {
        let a = a & 127;
        for k in 1..=128u32 {
            let x = (u32::from(a) + k) % 128;
            if set >> x & 1 == 1 {
                return x as u8;
            }
        }
        a
    }
    fn pred(set: u128, a: u8) -> u8 {
        let a = a & 127;
        for k in 1..=128u32 {
            let x = (u32::from(a) + 128 - k) % 128;
            if set >> x & 1 == 1 {
                return x as u8;
            }
        }
        a
    }

    /// The agreement condition of C02 for one station; Err(description) if it does not hold.
    fn station_agrees(&self, w: &World, i: usize, set: u128) -> Result<(), String> {
        let s = &w.stations[i];
        let a = s.cfg.addr;
        let sn = &s.snap;
        if !s.alive || !sn.online {
            return Err(format!("#{a} is not online"));
        }
        if !sn.in_ring {
            return Err(format!("#{a} is not in the ring"));
        }
        if sn.las != set {
            return Err(format!("#{a} has LAS {} but the online set is {}", fmt_set(sn.las), fmt_set(set)));
        }
        if sn.ns != Self::succ(set, a) || sn.ps != Self::pred(set, a) {
            return Err(format!(
                "#{a} has NS={} PS={} but its cyclic neighbours are NS={} PS={}",
                sn.ns,
                sn.ps,
                Self::succ(set, a),
                Self::pred(set, a)
            ));
        }
        Ok(())
    }

    fn all_agree(&mut self, w: &World) -> bool {
        let set = self.members(w);
        if set == 0 {
            return false;
        }
        for i in 0..w.stations.len() {
            if self.member[i] {
                if let Err(e) = self.station_agrees(w, i, set) {
                    self.disagreement = e;
                    return false;
                }
            } else if w.stations[i].alive && w.stations[i].snap.in_ring {
                self.disagreement = format!("#{} is in the ring but should be gone", w.stations[i].cfg.addr);
                return false;
            }
        }
        true
    }

    fn enter_quiet(&mut self, w: &World) {
        for (i, s) in w.stations.iter().enumerate() {
            self.member[i] = s.alive && s.snap.online;
        }
        self.phase = Phase::Converging;
    }
}

/// Why did the ring not converge?  Recognises the one constellation that cannot be resolved
/// without reading back one's own transmission: two (or more) token holders whose transmissions
/// collide every single time because they are polled with exactly the same period, without
/// jitter or skew, and therefore act in lock-step for ever.  The signature says how it began.
fn lockstep_diagnosis(w: &World, stale_token_at_tx: Option<usize>) -> (&'static str, String) {
    let bus = w.bus.borrow();
    let n = bus.txs.len();
    if n < 60 {
        return ("not-converged", String::new());
    }
    let mut in_collision = vec![false; n];
    for (a, b) in &bus.collisions {
        if *a < n {
            in_collision[*a] = true;
        }
        if *b < n {
            in_collision[*b] = true;
        }
    }
    // the uninterrupted run of colliding transmissions at the end of the trace
    let mut first = n;
    while first > 0 && in_collision[first - 1] {
        first -= 1;
    }
    if n - first < 40 {
        return ("not-converged", String::new());
    }
    let mut senders: Vec<usize> = bus.txs[first..].iter().filter(|t| t.real).map(|t| t.sender).collect();
    senders.sort();
    senders.dedup();
    if senders.len() < 2 || bus.txs[first..].iter().any(|t| !t.real) {
        return ("not-converged", String::new());
    }
    let c0 = &w.stations[senders[0]].cfg;
    let exact = senders.iter().all(|s| {
        let c = &w.stations[*s].cfg;
        c.p_min_us == c.p_max_us && c.p_max_us == c0.p_max_us && c.skew_ppm == 0 && c.dup_poll_pm == 0 && c.rx_chunk_us == c0.rx_chunk_us
    });
    if !exact {
        return ("not-converged-colliding-token-holders", format!("; the last {} transmissions all collided", n - first));
    }
    let claim = |t: &crate::bus::Tx| matches!(&t.frame, Some(Frame::Token { da, sa }) if da == sa);
    let began_with_claims = first + 1 < n && claim(&bus.txs[first]) && claim(&bus.txs[first + 1]) && bus.txs[first].sender != bus.txs[first + 1].sender;
    if began_with_claims {
        (
            "not-converged-lockstep-after-simultaneous-claim",
            format!("; the last {} transmissions all collided: stations polled with exactly the same period ({} us, no jitter, no skew) claimed the token in the same instant and have acted in lock-step since", n - first, c0.p_max_us),
        )
    } else if matches!(stale_token_at_tx, Some(x) if x <= first + 2 && x + 12 >= first) {
        (
            "not-converged-lockstep-after-stale-token",
            format!("; the last {} transmissions all collided: a station accepted its predecessor's repeated token pass as a second token after it had already used the first, and the two token holders, polled with exactly the same period ({} us, no jitter, no skew), have acted in lock-step since", n - first, c0.p_max_us),
        )
    } else {
        (
            "not-converged-lockstep",
            format!("; the last {} transmissions all collided: stations polled with exactly the same period ({} us, no jitter, no skew) act in lock-step", n - first, c0.p_max_us),
        )
    }
}

/// Do all online stations currently agree on the ring (LAS = online set, everybody in the ring)?
pub fn agreement(w: &World) -> bool {
    let mut set = 0u128;
    for s in &w.stations {
        if s.alive && s.snap.online {
            set |= 1u128 << s.cfg.addr;
        }
    }
    set != 0 && w.stations.iter().all(|s| !(s.alive && s.snap.online) || (s.snap.in_ring && s.snap.las == set))
}

pub fn fmt_set(set: u128) -> String {
    let v: Vec<String> = (0..128).filter(|a| set >> a & 1 == 1).map(|a| a.to_string()).collect();
    format!("{{{}}}", v.join(","))
}

impl Monitor for RingMonitor {
    fn name(&self) -> &'static str {
        "ring"
    }

    fn on_station(&mut self, w: &World, st: usize, ev: &StationEv) {
        if let StationEv::SelfOffline = ev {
            // DESIGN §5.6: legitimate only if the duplicate-address rule's precondition occurred
            let a = w.stations[st].cfg.addr;
            if self.own_sa_seen[st] < 2 {
                self.violate(
                    w,
                    "ring.self-offline",
                    "self-offline-unjustified",
                    Some(a),
                    format!("#{a} switched itself offline after consuming only {} telegram(s) with its own source address", self.own_sa_seen[st]),
                );
            } else if self.phase != Phase::Disturbed {
                self.member[st] = false;
            }
        }
        if matches!(ev, StationEv::Online | StationEv::Restart) {
            self.own_sa_seen[st] = 0;
        }
        if matches!(ev, StationEv::Online) && matches!(self.phase, Phase::Converging | Phase::Stable) {
            // a planned join that was deferred to the next telegram boundary: the population
            // change completes only now
            self.member[st] = true;
            self.phase = Phase::Converging;
            self.converged_at = None;
            self.settle_from = w.now;
        }
        if matches!(ev, StationEv::Offline | StationEv::Crash) && matches!(self.phase, Phase::Converging | Phase::Stable) {
            self.member[st] = false;
            self.phase = Phase::Converging;
            self.converged_at = None;
        }
    }

    fn on_tx(&mut self, w: &World, idx: usize) {
        if self.phase != Phase::Stable {
            return;
        }
        let bus = w.bus.borrow();
        let tx = &bus.txs[idx];
        if tx.collided {
            self.violate(
                w,
                "ring.single-token",
                "collision-after-agreement",
                w.addr_of_node(tx.sender),
                format!("two stations transmit at the same time {} us after agreement was reached (two token holders)", w.to_us(w.now.saturating_sub(self.converged_at.unwrap_or(0)))),
            );
            return;
        }
        if let Some(Frame::Token { da, sa }) = &tx.frame {
            let set = self.members(w);
            let a = w.addr_of_node(tx.sender).unwrap_or(255);
            self.tokens_in_stable += 1;
            if *da <= *sa {
                self.rotations_in_stable += 1;
            }
            let expected_da = Self::succ(set, *sa);
            let in_order = self.last_token_da.map(|d| d == *sa).unwrap_or(true);
            if *sa > 127 || set >> (*sa & 127) & 1 == 0 || *da != expected_da || !in_order {
                self.violate(
                    w,
                    "ring.order",
                    "token-order",
                    Some(a),
                    format!(
                        "after agreement on {}: token {}->{} (expected {}->{}; previous token went to {:?})",
                        fmt_set(set),
                        sa,
                        da,
                        sa,
                        expected_da,
                        self.last_token_da
                    ),
                );
            }
            self.last_token_da = Some(*da);
        }
    }

    fn on_poll(&mut self, w: &World, p: &PollInfo) {
        for r in p.rx {
            match &r.verdict {
                RxVerdict::Consumed { .. } => self.discard_run[p.st] = 0,
                RxVerdict::Discarded { .. } | RxVerdict::Anomaly { .. } => self.discard_run[p.st] += 1,
                RxVerdict::Flushed { .. } => {}
            }
        }
        // a token that is older than the station's own latest transmission
        {
            let a = w.stations[p.st].cfg.addr;
            let bus = w.bus.borrow();
            for r in p.rx {
                if let RxVerdict::Consumed { frame: Frame::Token { da, sa }, src: Some(x), .. } = &r.verdict {
                    if *da == a && *sa != a && bus.txs[*x + 1..].iter().any(|t| t.real && t.sender == p.st) {
                        self.stale_token_at_tx = Some(bus.txs.len());
                    }
                }
            }
        }
        // bookkeeping for §5.6
        if !p.pre.in_ring {
            let a = w.stations[p.st].cfg.addr;
            for r in p.rx {
                if let RxVerdict::Consumed { frame, .. } = &r.verdict {
                    if frame.sa() == Some(a) {
                        self.own_sa_seen[p.st] += 1;
                    }
                }
            }
        }
        match self.phase {
            Phase::Disturbed => {
                if w.now >= self.quiet_from {
                    self.enter_quiet(w);
                }
            }
            Phase::Converging => {
                if self.members(w) == 0 {
                    // nobody is left online: nothing to agree on
                    self.phase = Phase::Done;
                    return;
                }
                if w.now >= self.settle_from + self.settle && self.all_agree(w) {
                    self.converged_at = Some(w.now);
                    self.phase = Phase::Stable;
                    self.last_token_da = None;
                } else if w.now > self.deadline {
                    let (mut sig, mut why) = lockstep_diagnosis(w, self.stale_token_at_tx);
                    if sig == "not-converged" {
                        // a receiver that reads the byte stream out of phase: it drops data at every
                        // telegram of an otherwise healthy ring and never decodes one
                        if let Some((st, n)) = self.discard_run.iter().enumerate().filter(|(st, n)| **n >= 50 && self.member[*st]).map(|(st, n)| (st, *n)).max_by_key(|(_, n)| *n) {
                            sig = "not-converged-receiver-out-of-frame";
                            why = format!(
                                "; #{} has dropped undecodable data in {} polls in a row without decoding a single telegram although the telegrams on the bus are intact: its receive buffer is read out of phase (a byte of every telegram that equals a start delimiter arrives just after the previous garbage was dropped and starts the next pseudo-frame)",
                                w.stations[st].cfg.addr,
                                n
                            );
                        }
                    }
                    self.violate(
                        w,
                        if self.recovery { "ring.recovery" } else { "ring.convergence" },
                        sig,
                        None,
                        format!(
                            "no agreement {} us after the last {} (bound {} us): {}{}",
                            w.to_us(w.now - self.quiet_from),
                            if self.recovery { "disturbance" } else { "population change" },
                            w.to_us(self.deadline - self.quiet_from),
                            self.disagreement,
                            why
                        ),
                    );
                    self.phase = Phase::Done;
                }
            }
            Phase::Stable => {
                let set = self.members(w);
                if self.member[p.st] {
                    if let Err(e) = self.station_agrees(w, p.st, set) {
                        self.violate(
                            w,
                            "ring.stability",
                            "agreement-lost",
                            Some(w.stations[p.st].cfg.addr),
                            format!("agreement reached at {} us was lost: {e}", w.to_us(self.converged_at.unwrap_or(0))),
                        );
                        self.phase = Phase::Done;
                        return;
                    }
                }
                if w.now >= self.converged_at.unwrap_or(0) + self.stable_for {
                    self.phase = Phase::Done;
                }
            }
            Phase::Done => {}
        }
    }

    fn done(&self, _w: &World) -> bool {
        self.phase == Phase::Done
    }

    fn report(&self, w: &World, s: &mut crate::world::Stats) {
        if self.silent {
            return;
        }
        s.add("probe.own_address_heard_while_not_in_ring", self.own_sa_seen.iter().map(|n| u64::from(*n)).sum::<u64>());
        if let Some(c) = self.converged_at {
            s.inc("ring.converged");
            let took = c.saturating_sub(self.quiet_from);
            let bound = self.deadline - self.quiet_from;
            s.max("ring.max_convergence_over_bound", took as f64 / bound.max(1) as f64);
            let _ = w;
        }
        if self.phase == Phase::Done && self.converged_at.is_some() {
            s.inc("ring.stability_window_completed");
        }
        s.add("ring.tokens_in_stable", self.tokens_in_stable);
        s.add("ring.rotations_in_stable", self.rotations_in_stable);
    }

    fn finish(&mut self, w: &World) {
        if self.phase == Phase::Converging && w.now > self.deadline {
            self.violate(
                w,
                if self.recovery { "ring.recovery" } else { "ring.convergence" },
                "not-converged",
                None,
                format!("no agreement by the end of the run: {}", self.disagreement),
            );
        }
    }
}
