//! C05 — poll() is total: no panic (recorded by the world), no hang (driver watchdog), and the
//! stack honours the PHY contract whatever arrives.

use crate::world::{Monitor, PollInfo, Stats, World};

pub struct TotalMonitor {
    prop: &'static str,
    pub n_polls: u64,
}

impl TotalMonitor {
    pub fn new(prop: &'static str) -> Self {
        TotalMonitor { prop, n_polls: 0 }
    }
}

impl Monitor for TotalMonitor {
    fn name(&self) -> &'static str {
        "total"
    }

    fn on_poll(&mut self, w: &World, p: &PollInfo) {
        self.n_polls += 1;
        if let Some(c) = p.contract.first() {
            let a = w.stations[p.st].cfg.addr;
            w.violate(self.prop, "total.phy-contract", "phy-contract", Some(a), format!("#{a}: {c}"));
        }
    }

    fn observer(&self) -> bool {
        true
    }

    fn report(&self, _w: &World, s: &mut Stats) {
        s.add("total.polls_returned", self.n_polls);
    }
}
