//! C01 — bus access: no overlap, idle times, authority (R2 token/authority monitor on the
//! byte-accurate bus trace), PHY contract, R1 cross-decoding of every frame real code sends.

use super::{token_lost_timeout_ticks, tol_ticks};
use crate::bus::BIT;
use crate::phy::RxVerdict;
use crate::wire::Frame;
use crate::world::{Monitor, PollInfo, StationEv, World};

pub struct AccessMonitor {
    prop: &'static str,
    holder: Option<u8>,
    /// (from, to, index of the transmission)
    last_pass: Option<(u8, u8, usize)>,
    prev: Option<usize>,
    online_at: Vec<u64>,
    /// Check authority (c); off in worlds with an adversary or wire faults.
    pub authority: bool,
    pub n_checked: u64,
    pub n_tokens: u64,
    pub n_retries: u64,
    pub n_claims: u64,
    pub n_replies: u64,
    pub min_init_gap_bits: f64,
    pub min_reply_gap_bits: f64,
    token_senders: u128,
    /// Last validated claim: (transmission, start of the silence it was measured from).
    last_claim: Option<(usize, u64)>,
    /// The excluded un-synchronised claim race happened (DESIGN 5.2): two token holders exist
    /// legitimately; what follows is recovery (C06), not fault-free operation.
    void: bool,
    n_excluded_races: u64,
}

impl AccessMonitor {
    pub fn new(prop: &'static str, n_stations: usize) -> Self {
        AccessMonitor {
            prop,
            holder: None,
            last_pass: None,
            prev: None,
            online_at: vec![0; n_stations],
            authority: true,
            n_checked: 0,
            n_tokens: 0,
            n_retries: 0,
            n_claims: 0,
            n_replies: 0,
            min_init_gap_bits: f64::MAX,
            min_reply_gap_bits: f64::MAX,
            token_senders: 0,
            last_claim: None,
            void: false,
            n_excluded_races: 0,
        }
    }
}

impl Monitor for AccessMonitor {
    fn name(&self) -> &'static str {
        "access"
    }

    fn on_station(&mut self, w: &World, st: usize, ev: &StationEv) {
        if matches!(ev, StationEv::Online | StationEv::Restart) {
            self.online_at[st] = w.now;
        }
        // a station that leaves takes the token with it
        if matches!(ev, StationEv::Offline | StationEv::Crash | StationEv::Online | StationEv::Restart) && self.holder == Some(w.stations[st].cfg.addr) {
            self.holder = None;
        }
    }

    fn on_tx(&mut self, w: &World, idx: usize) {
        let bus = w.bus.borrow();
        let tx = &bus.txs[idx];
        let prev = self.prev.map(|p| &bus.txs[p]);
        let prev_idx = self.prev;
        self.prev = Some(idx);
        let addr = w.addr_of_node(tx.sender);

        if self.void {
            return;
        }
        // (a) overlap
        if tx.collided {
            let other = bus.collisions.iter().rev().find(|(_, b)| *b == idx).map(|(a, _)| *a);
            let o = other.map(|o| &bus.txs[o]);
            // The excluded race (DESIGN 5.2): both transmissions are claims, each after the
            // claimant's own full time-out, and the two time-outs did not start together because
            // one claimant went online on the already silent bus.
            if let (Some((ci, since_common)), Some(oi), Some(Frame::Token { da, sa })) = (self.last_claim, other, tx.frame.as_ref()) {
                if self.authority && tx.real && ci == oi && addr == Some(*sa) && da == sa && bus.txs[oi].real {
                    let st = tx.sender;
                    let ost = bus.txs[oi].sender;
                    let since = since_common.max(self.online_at[st]);
                    let silence = tx.start.saturating_sub(since);
                    let need = token_lost_timeout_ticks(w, st);
                    let tol = tol_ticks(w, st, 2, need);
                    let unsync = self.online_at[st] > since_common || self.online_at[ost] > since_common;
                    if unsync && silence + tol >= need {
                        self.void = true;
                        self.n_excluded_races += 1;
                        return;
                    }
                }
            }
            w.violate(
                self.prop,
                "access.overlap",
                "overlap",
                addr,
                format!(
                    "node {} (#{:?}) starts {} at {} us while node {:?} is still transmitting {} (until {} us)",
                    tx.sender,
                    addr,
                    tx.frame.as_ref().map(|f| f.short()).unwrap_or_else(|| format!("{:02x?}", tx.bytes)),
                    w.to_us(tx.start),
                    o.map(|o| o.sender),
                    o.and_then(|o| o.frame.as_ref().map(|f| f.short())).unwrap_or_default(),
                    o.map(|o| w.to_us(o.end())).unwrap_or(0),
                ),
            );
            return;
        }
        if !tx.real {
            return;
        }
        let st = tx.sender;
        let addr = addr.unwrap();
        self.n_checked += 1;

        // every frame real code sends must be one frame for R1
        let Some(frame) = tx.frame.as_ref() else {
            w.violate(
                self.prop,
                "access.r1",
                "undecodable-tx",
                Some(addr),
                format!("#{addr} transmitted bytes the reference codec does not accept as one frame: {:02x?}", tx.bytes),
            );
            return;
        };

        // (b) idle times
        if let Some(p) = prev {
            let gap = tx.start.saturating_sub(p.end());
            let is_reply = frame.is_reply();
            let need = if is_reply { 11 * BIT } else { 33 * BIT };
            // the station measures from the start of its own previous transmission or from the
            // poll in which it saw the previous telegram: never earlier than that telegram's start
            let measured = tx.start.saturating_sub(p.start) + w.us(w.stations[st].cfg.p_max_us);
            let tol = tol_ticks(w, st, 1, measured);
            let gap_bits = gap as f64 / BIT as f64;
            if is_reply {
                self.n_replies += 1;
                if gap_bits < self.min_reply_gap_bits {
                    self.min_reply_gap_bits = gap_bits;
                }
            } else if gap_bits < self.min_init_gap_bits {
                self.min_init_gap_bits = gap_bits;
            }
            if gap + tol < need {
                w.violate(
                    self.prop,
                    "access.idle",
                    if is_reply { "min-tsdr" } else { "sync-pause" },
                    Some(addr),
                    format!(
                        "#{addr} starts {} only {:.2} bit times after the end of the previous telegram ({}); required {}",
                        frame.short(),
                        gap_bits,
                        p.frame.as_ref().map(|f| f.short()).unwrap_or_default(),
                        if is_reply { 11 } else { 33 }
                    ),
                );
                return;
            }
        }

        // (c) authority
        if !self.authority {
            return;
        }
        match frame {
            Frame::Token { da, sa } => {
                self.n_tokens += 1;
                self.token_senders |= 1u128 << (addr & 127);
                if *sa != addr {
                    w.violate(self.prop, "access.authority", "foreign-sa", Some(addr), format!("#{addr} sent {}", frame.short()));
                    return;
                }
                if self.holder == Some(addr) {
                    // pass (or pass to itself)
                } else if matches!(self.last_pass, Some((from, _, at)) if from == addr && Some(at) == prev_idx) {
                    self.n_retries += 1;
                } else if *da == addr {
                    // claim: needs silence of the station's own time-out
                    let since = prev.map(|p| p.end()).unwrap_or(0).max(self.online_at[st]);
                    let silence = tx.start.saturating_sub(since);
                    let need = token_lost_timeout_ticks(w, st);
                    let tol = tol_ticks(w, st, 2, need);
                    if silence + tol < need {
                        w.violate(
                            self.prop,
                            "access.authority",
                            "early-claim",
                            Some(addr),
                            format!(
                                "#{addr} claims the token after only {} us of silence; its time-out is {} us",
                                w.to_us(silence),
                                w.to_us(need)
                            ),
                        );
                        return;
                    }
                    self.n_claims += 1;
                    self.last_claim = Some((idx, prev.map(|p| p.end()).unwrap_or(0)));
                } else {
                    w.violate(
                        self.prop,
                        "access.authority",
                        "token-without-holding",
                        Some(addr),
                        format!("#{addr} sent {} but the token holder is {:?} (last pass {:?})", frame.short(), self.holder, self.last_pass),
                    );
                    return;
                }
                self.holder = Some(*da);
                self.last_pass = Some((addr, *da, idx));
            }
            Frame::Data { da: _, .. } if frame.is_request() => {
                if self.holder != Some(addr) {
                    w.violate(
                        self.prop,
                        "access.authority",
                        "request-without-token",
                        Some(addr),
                        format!("#{addr} sent {} but the token holder is {:?}", frame.short(), self.holder),
                    );
                }
            }
            _ => {
                // reply: SC or response
                let ok = match prev.and_then(|p| p.frame.as_ref().map(|f| (p, f))) {
                    Some((p, pf)) => pf.request_expecting_reply().is_some() && pf.da() == Some(addr) && p.sender != tx.sender,
                    None => false,
                };
                if !ok {
                    w.violate(
                        self.prop,
                        "access.authority",
                        "unsolicited-reply",
                        Some(addr),
                        format!(
                            "#{addr} sent {} but the preceding transmission was {}",
                            frame.short(),
                            prev.and_then(|p| p.frame.as_ref().map(|f| f.short())).unwrap_or_else(|| "nothing".into())
                        ),
                    );
                }
            }
        }
    }

    fn on_poll(&mut self, w: &World, p: &PollInfo) {
        let addr = w.stations[p.st].cfg.addr;
        // (d) PHY contract
        if let Some(c) = p.contract.first() {
            w.violate(self.prop, "access.phy-contract", "phy-contract", Some(addr), format!("#{addr}: {c}"));
        }
        if p.txs.len() > 1 {
            w.violate(self.prop, "access.phy-contract", "two-tx-in-one-poll", Some(addr), format!("#{addr} started {} transmissions in one poll", p.txs.len()));
        }
        // R1 cross-check of the receive side (fault-free worlds only)
        if self.authority {
            for r in p.rx {
                if let RxVerdict::Anomaly { dropped, shown, r1 } = &r.verdict {
                    w.violate(
                        self.prop,
                        "access.r1",
                        "rx-anomaly",
                        Some(addr),
                        format!("#{addr} dropped {dropped} of {shown} buffered bytes although the reference decoder says {r1}"),
                    );
                }
            }
        }
    }

    fn observer(&self) -> bool {
        true
    }

    fn report(&self, _w: &World, s: &mut crate::world::Stats) {
        s.add("access.transmissions_checked", self.n_checked);
        s.add("access.tokens", self.n_tokens);
        s.add("access.token_retries", self.n_retries);
        s.add("access.claims", self.n_claims);
        s.add("probe.excluded_unsynchronised_claim_race", self.n_excluded_races);
        s.add("access.replies_by_real_stations", self.n_replies);
        s.add("access.distinct_token_senders", self.token_senders.count_ones() as u64);
        if self.min_init_gap_bits < f64::MAX {
            // smaller gap = closer to the limit: report 33/gap
            s.max("access.max_33bit_over_observed_gap", 33.0 / self.min_init_gap_bits.max(1e-9));
        }
        if self.min_reply_gap_bits < f64::MAX {
            s.max("access.max_11bit_over_observed_reply_gap", 11.0 / self.min_reply_gap_bits.max(1e-9));
        }
    }
}
