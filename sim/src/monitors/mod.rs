//! Oracles (DESIGN §3, §6).  Each monitor observes the bus trace, the poll boundaries, the
//! application call log and public accessors only.

pub mod access;
pub mod apps;
pub mod dp;
pub mod gap;
pub mod handover;
pub mod ring;
pub mod scan;
pub mod total;

use crate::world::World;

/// Token-lost time-out of a station in ticks, as the stack computes it (bit time truncated to µs).
pub fn token_lost_timeout_ticks(w: &World, st: usize) -> u64 {
    let c = &w.stations[st].cfg;
    let bits = u64::from(c.slot_bits) * (6 + 2 * u64::from(c.addr));
    let us = bits * 1_000_000 / w.cfg.baud;
    us * w.cfg.baud
}

/// Tolerance for comparing a stack-side interval with the wire: `us` microseconds plus the
/// station's clock skew over `interval` ticks.
pub fn tol_ticks(w: &World, st: usize, us: u64, interval: u64) -> u64 {
    let skew = u128::from(w.stations[st].cfg.skew_ppm.unsigned_abs());
    let mut t = us * w.cfg.baud;
    if skew != 0 {
        // the local clock is floor(global * (1 + skew)): one more µs of rounding, plus the drift
        // over the interval the station measured
        t += (u128::from(interval) * skew / 1_000_000) as u64 + w.cfg.baud;
    }
    t
}

/// End (ticks) of the latest transmission before `before_idx` that station `st` could perceive:
/// not its own, not lost for it, with at least one character delivered.  Bus silence as a
/// station measures it starts no earlier than this.
pub fn last_visible_activity(w: &World, bus: &crate::bus::Bus, st: usize, before_idx: usize, at: u64) -> u64 {
    let node = w.stations[st].node;
    let mut t = 0u64;
    for tx in bus.txs[..before_idx].iter().rev().take(24) {
        let end = if tx.sender == node {
            tx.end()
        } else if (tx.lost_for >> node) & 1 == 1 || tx.seen.is_empty() || tx.start + crate::bus::CHAR > at {
            // lost, swallowed by a collision, or its first character is not complete yet
            continue;
        } else {
            tx.start + tx.seen.len() as u64 * crate::bus::CHAR
        };
        t = t.max(end.min(at));
    }
    t
}
