//! Oracles (DESIGN §3, §6).  Each monitor observes the bus trace, the poll boundaries, the
//! application call log and public accessors only.

pub mod access;
pub mod apps;
pub mod dp;
pub mod ring;

use crate::world::World;

/// Token-lost time-out of a station in ticks, as the stack computes it (bit time truncated to µs).
pub fn token_lost_timeout_ticks(w: &World, st: usize) -> u64 {
    let c = &w.stations[st].cfg;
    let bits = u64::from(c.slot_bits) * (6 + 2 * u64::from(c.addr));
    let us = bits * 1_000_000 / w.cfg.baud;
    us * w.cfg.baud
}

/// Tolerance for comparing a stack-side interval with the wire: `us` microseconds plus the
/// station's clock skew over `interval` ticks.
pub fn tol_ticks(w: &World, st: usize, us: u64, interval: u64) -> u64 {
    let skew = u128::from(w.stations[st].cfg.skew_ppm.unsigned_abs());
    let mut t = us * w.cfg.baud;
    if skew != 0 {
        // the local clock is floor(global * (1 + skew)): one more µs of rounding, plus the drift
        // over the interval the station measured
        t += (u128::from(interval) * skew / 1_000_000) as u64 + w.cfg.baud;
    }
    t
}
