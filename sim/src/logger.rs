//! Logger seam: profirust evaluates log arguments only when a logger is enabled, and some of its
//! panics live in log arguments (F2, F5).  For C05 every record is formatted at `Trace` into a
//! scratch buffer.  The logger never draws from a PRNG and never reads a clock.

use std::cell::RefCell;
use std::fmt::Write;

struct FmtLogger;

thread_local! {
    static BUF: RefCell<String> = const { RefCell::new(String::new()) };
    static ECHO: RefCell<bool> = const { RefCell::new(false) };
}

impl log::Log for FmtLogger {
    fn enabled(&self, _: &log::Metadata) -> bool {
        true
    }
    fn log(&self, record: &log::Record) {
        BUF.with(|b| {
            if let Ok(mut b) = b.try_borrow_mut() {
                b.clear();
                let _ = write!(b, "{}", record.args());
                if ECHO.with(|e| *e.borrow()) {
                    eprintln!("        [{:5}] {}", record.level(), b);
                }
            }
        });
    }
    fn flush(&self) {}
}

static LOGGER: FmtLogger = FmtLogger;

pub fn install() {
    let _ = log::set_logger(&LOGGER);
    log::set_max_level(log::LevelFilter::Off);
}

pub fn configure(log_all: bool) {
    let echo = ECHO.with(|e| *e.borrow());
    log::set_max_level(if log_all || echo { log::LevelFilter::Trace } else { log::LevelFilter::Off });
}

pub fn set_echo(on: bool) {
    ECHO.with(|e| *e.borrow_mut() = on);
}
