// Throwaway probe: multi-station ring with jittered polls over an exact-time bus.
use profirust::fdl::{self, FdlActiveStation};
use profirust::phy::ProfibusPhy;
use profirust::time::Instant;
use profirust::Baudrate;
use std::cell::RefCell;
use std::rc::Rc;

const BIT: u64 = 1_000_000; // ticks per bit; 1us = baud ticks

#[derive(Clone, Debug)]
pub struct Tx {
    pub start: u64,
    pub sender: usize,
    pub bytes: Vec<u8>,
    pub seen: Vec<u8>,   // bytes as seen by receivers (after corruption)
    pub lost_for: u64,   // bitmask of receivers that miss this telegram entirely
}
impl Tx {
    pub fn end(&self) -> u64 {
        self.start + self.bytes.len() as u64 * 11 * BIT
    }
}

pub struct Bus {
    pub baud: u64,
    pub txs: Vec<Tx>,
    pub collisions: Vec<(usize, usize)>,
    pub rng: Rng,
    pub fault_until: u64,
    pub p_drop: u64,
    pub p_corrupt: u64,
    pub p_rxloss: u64,
    pub nfaults: [u64; 4],
}

pub struct SimPhy {
    bus: Rc<RefCell<Bus>>,
    id: usize,
    next_tx: usize,
    next_byte: usize,
    rx: Vec<u8>,
    tx_end: u64,
}

impl SimPhy {
    fn new(bus: Rc<RefCell<Bus>>, id: usize) -> Self {
        let next_tx = bus.borrow().txs.len();
        Self { bus, id, next_tx, next_byte: 0, rx: vec![], tx_end: 0 }
    }
    fn ticks(&self, now: Instant) -> u64 {
        now.total_micros() as u64 * self.bus.borrow().baud
    }
    fn pull(&mut self, now: u64) {
        let bus = self.bus.borrow();
        while self.next_tx < bus.txs.len() {
            let tx = &bus.txs[self.next_tx];
            if tx.sender == self.id || (tx.lost_for >> self.id) & 1 == 1 {
                self.next_tx += 1;
                self.next_byte = 0;
                continue;
            }
            while self.next_byte < tx.bytes.len() {
                let avail = tx.start + (self.next_byte as u64 + 1) * 11 * BIT;
                if avail <= now {
                    self.rx.push(tx.seen[self.next_byte]);
                    self.next_byte += 1;
                } else {
                    return;
                }
            }
            self.next_tx += 1;
            self.next_byte = 0;
        }
    }
}

impl ProfibusPhy for SimPhy {
    fn poll_transmission(&mut self, now: Instant) -> bool {
        self.ticks(now) < self.tx_end
    }
    fn transmit_data<F, R>(&mut self, now: Instant, f: F) -> R
    where
        F: FnOnce(&mut [u8]) -> (usize, R),
    {
        let mut buf = [0u8; 256];
        let (len, r) = f(&mut buf);
        if len > 0 {
            let start = self.ticks(now);
            assert!(start >= self.tx_end, "phy {} transmit while transmitting", self.id);
            let mut bus = self.bus.borrow_mut();
            let idx = bus.txs.len();
            // collision check against all earlier tx that end after start
            let mut seen = buf[..len].to_vec();
            let mut coll = None;
            for (j, t) in bus.txs.iter().enumerate().rev().take(8) {
                if t.end() > start {
                    coll = Some(j);
                    break;
                }
            }
            if let Some(j) = coll {
                bus.collisions.push((j, idx));
                bus.nfaults[3] += 1;
                let a_start = bus.txs[j].start;
                let a_end = bus.txs[j].end();
                let k = ((start - a_start) / (11 * BIT)) as usize;
                for b in k..bus.txs[j].seen.len() {
                    let r = bus.rng.next() as u8;
                    bus.txs[j].seen[b] ^= r | 1;
                }
                let nb = (((a_end - start) + 11 * BIT - 1) / (11 * BIT)) as usize;
                for b in 0..nb.min(seen.len()) {
                    let r = bus.rng.next() as u8;
                    seen[b] ^= r | 1;
                }
            }
            let mut lost_for = 0u64;
            if start < bus.fault_until {
                let r = bus.rng.range(0, 999);
                if r < bus.p_drop {
                    lost_for = u64::MAX;
                    bus.nfaults[0] += 1;
                } else if r < bus.p_drop + bus.p_corrupt {
                    let i = bus.rng.range(0, len as u64 - 1) as usize;
                    let bit = bus.rng.range(0, 7);
                    seen[i] ^= 1 << bit;
                    bus.nfaults[1] += 1;
                } else if r < bus.p_drop + bus.p_corrupt + bus.p_rxloss {
                    lost_for = 1 << bus.rng.range(0, 7);
                    bus.nfaults[2] += 1;
                }
            }
            let tx = Tx { start, sender: self.id, bytes: buf[..len].to_vec(), seen, lost_for };
            self.tx_end = tx.end();
            bus.txs.push(tx);
        }
        r
    }
    fn receive_data<F, R>(&mut self, now: Instant, f: F) -> R
    where
        F: FnOnce(&[u8]) -> (usize, R),
    {
        let t = self.ticks(now);
        assert!(t >= self.tx_end, "phy {} receive while transmitting", self.id);
        self.pull(t);
        let (drop, r) = f(&self.rx);
        assert!(drop <= self.rx.len());
        self.rx.drain(..drop);
        r
    }
}

pub struct Rng(pub u64);
impl Rng {
    pub fn next(&mut self) -> u64 {
        // splitmix64
        self.0 = self.0.wrapping_add(0x9E3779B97F4A7C15);
        let mut z = self.0;
        z = (z ^ (z >> 30)).wrapping_mul(0xBF58476D1CE4E5B9);
        z = (z ^ (z >> 27)).wrapping_mul(0x94D049BB133111EB);
        z ^ (z >> 31)
    }
    pub fn range(&mut self, lo: u64, hi: u64) -> u64 {
        // inclusive
        lo + self.next() % (hi - lo + 1)
    }
}

struct FmtLogger;
impl log::Log for FmtLogger {
    fn enabled(&self, _: &log::Metadata) -> bool {
        true
    }
    fn log(&self, record: &log::Record) {
        use std::fmt::Write;
        thread_local! { static BUF: RefCell<String> = RefCell::new(String::new()); }
        BUF.with(|b| {
            let mut b = b.borrow_mut();
            b.clear();
            let _ = write!(b, "{}", record.args());
            if std::env::var_os("PROBE_LOG").is_some() {
                eprintln!("[{:5}] {}", record.level(), b);
            }
        });
    }
    fn flush(&self) {}
}

pub struct Station {
    pub addr: u8,
    pub fdl: FdlActiveStation,
    pub phy: SimPhy,
    pub next_poll: u64, // us
    pub pmin: u64,
    pub pmax: u64,
}

fn baud_of(s: &str) -> Baudrate {
    match s {
        "9600" => Baudrate::B9600,
        "19200" => Baudrate::B19200,
        "93750" => Baudrate::B93750,
        "187500" => Baudrate::B187500,
        "500000" => Baudrate::B500000,
        "1500000" => Baudrate::B1500000,
        "12000000" => Baudrate::B12000000,
        _ => panic!(),
    }
}

fn decode(bytes: &[u8]) -> String {
    match fdl::Telegram::deserialize(bytes) {
        Some(Ok((t, _))) => format!("{:?}", t),
        _ => format!("{:02x?}", bytes),
    }
}

fn main() {
    log::set_logger(&FmtLogger).unwrap();
    log::set_max_level(log::LevelFilter::Trace);
    let args: Vec<String> = std::env::args().collect();
    // probe <baud> <slot_bits> <poll_max_bits> <hsa> <gap> <seeds> <simms> addr...
    let baud = baud_of(&args[1]);
    let slot_bits: u16 = args[2].parse().unwrap();
    let poll_max_bits: f64 = args[3].parse().unwrap();
    let hsa: u8 = args[4].parse().unwrap();
    let gap: u8 = args[5].parse().unwrap();
    let seeds: u64 = args[6].parse().unwrap();
    let sim_ms: u64 = args[7].parse().unwrap();
    let specs: Vec<(u8, u64)> = args[8..].iter().map(|a| { let mut it = a.split('@'); (it.next().unwrap().parse().unwrap(), it.next().map(|x| x.parse().unwrap()).unwrap_or(0)) }).collect();
    let addrs: Vec<u8> = specs.iter().map(|s| s.0).collect();
    let race: u64 = std::env::var("RACE_MS").ok().and_then(|v| v.parse().ok()).unwrap_or(0);
    let stall_rate: u64 = std::env::var("STALL").ok().and_then(|v| v.parse().ok()).unwrap_or(0);
    let verbose = std::env::var_os("PROBE_TRACE").is_some();

    let rate = baud.to_rate();
    let bit_us = 1e6 / rate as f64;
    let pmax = ((poll_max_bits * bit_us) as u64).max(1);
    let pmin = (pmax / 2).max(1);
    println!("baud={rate} bit={bit_us:.3}us slot={slot_bits}b pollmax={pmax}us pmin={pmin}us");

    let mut tot_coll = 0;
    let mut tot_sync = 0;
    let mut not_conv = 0;
    let first: u64 = std::env::var("FIRST").ok().and_then(|v| v.parse().ok()).unwrap_or(0);
    for seed in first..first+seeds {
        let mut rng = Rng(seed);
        let fault_ms: u64 = std::env::var("FAULT_MS").ok().and_then(|v| v.parse().ok()).unwrap_or(0);
        let pf: u64 = std::env::var("PFAULT").ok().and_then(|v| v.parse().ok()).unwrap_or(30);
        let bus = Rc::new(RefCell::new(Bus { baud: rate, txs: vec![], collisions: vec![], rng: Rng(seed ^ 0x5555), fault_until: fault_ms * 1000 * rate, p_drop: pf, p_corrupt: pf, p_rxloss: pf, nfaults: [0; 4] }));
        let mut stations: Vec<Station> = addrs
            .iter()
            .enumerate()
            .map(|(i, &a)| {
                let mut fdl = FdlActiveStation::new(
                    fdl::ParametersBuilder::new(a, baud)
                        .highest_station_address(hsa)
                        .slot_bits(slot_bits)
                        .gap_wait_rotations(gap)
                        .build(),
                );
                let _ = &specs;
                Station {
                    addr: a,
                    fdl,
                    phy: SimPhy::new(bus.clone(), i),
                    next_poll: if std::env::var_os("RACE_ALIGN").is_some() { let to = (6 + 2 * a as u64) * slot_bits as u64 * 1_000_000 / rate; 2_000_000 - to + rng.range(0, pmax) } else if race > 0 { rng.range(0, race * 1000) } else { rng.range(0, pmax) },
                    pmin,
                    pmax,
                }
            })
            .collect();
        let end_us = sim_ms * 1000;
        let mut conv_at: Option<u64> = None;
        let mut polls = 0u64;
        let mut ncrash = 0u64;
        let mut nstall = 0u64;
        let mut joined = vec![false; addrs.len()];
        let crash_rate: u64 = std::env::var("CRASH").ok().and_then(|v| v.parse().ok()).unwrap_or(0);
        loop {
            // pick min next_poll
            let (i, _) = stations.iter().enumerate().min_by_key(|(i, s)| (s.next_poll, *i)).unwrap();
            let t = stations[i].next_poll;
            if t >= end_us {
                break;
            }
            let s = &mut stations[i];
            if !s.fdl.connectivity_state().is_online() && !joined[i] {
                joined[i] = true;
                s.fdl.set_online();
                s.phy = SimPhy::new(bus.clone(), i);
            }
            let ntx = bus.borrow().txs.len();
            s.fdl.poll(Instant::from_micros(t as i64), &mut s.phy, &mut ());
            polls += 1;
            if verbose {
                let b = bus.borrow();
                for tx in &b.txs[ntx..] {
                    println!("{:10} #{:3} {}", t, s.addr, decode(&tx.bytes));
                }
            }
            s.next_poll = t + rng.range(s.pmin, s.pmax);
            if t * rate < bus.borrow().fault_until && rng.range(0, 9999) < stall_rate {
                s.next_poll += rng.range(1, 30) * (slot_bits as u64) * 1_000_000 / rate;
                nstall += 1;
            }
            if t * rate < bus.borrow().fault_until && rng.range(0, 9999) < crash_rate {
                // crash + immediate restart with empty state; truncate an ongoing transmission
                let now_t = t * rate;
                {
                    let mut b = bus.borrow_mut();
                    if let Some(last) = b.txs.last_mut() {
                        if last.sender == i && last.end() > now_t {
                            let sent = ((now_t - last.start) / (11 * BIT)) as usize;
                            last.seen.truncate(sent);
                            last.bytes.truncate(sent);
                        }
                    }
                }
                let p = s.fdl.parameters().clone();
                s.fdl = FdlActiveStation::new(p);
                s.fdl.set_online();
                s.phy = SimPhy::new(bus.clone(), i);
                ncrash += 1;
            }
            // convergence check (cheap)
            if conv_at.is_none() && polls % 64 == 0 {
                let all = stations.iter().all(|s| {
                    s.fdl.is_in_ring()
                        && s.fdl.inspect_token_ring().iter_active_stations().collect::<Vec<_>>() == {
                            let mut a = addrs.clone();
                            a.sort();
                            a
                        }
                });
                if all {
                    conv_at = Some(t);
                }
            }
        }
        // analyse trace
        let b = bus.borrow();
        let mut sync_viol = 0;
        for w in b.txs.windows(2) {
            let gap_ticks = w[1].start as i64 - w[0].end() as i64;
            let gap_bits = gap_ticks as f64 / BIT as f64;
            // initiated telegram => 33 bits; reply => 11 bits. classify reply: data telegram with Response fc
            let is_reply = match fdl::Telegram::deserialize(&w[1].bytes) {
                Some(Ok((fdl::Telegram::Data(d), _))) => d.is_response().is_some(),
                Some(Ok((fdl::Telegram::ShortConfirmation(_), _))) => true,
                _ => false,
            };
            let need = if is_reply { 11.0 } else { 33.0 };
            let tol_bits = 2.0 / bit_us; // 2us
            if gap_bits < need - tol_bits {
                sync_viol += 1;
                if sync_viol <= 3 {
                    println!(
                        "  seed {seed}: gap {gap_bits:.2} bits < {need}: {} then {} by {}",
                        decode(&w[0].bytes),
                        decode(&w[1].bytes),
                        w[1].sender
                    );
                }
            }
        }
        let final_ok = stations.iter().all(|s| {
            s.fdl.is_in_ring()
                && s.fdl.inspect_token_ring().iter_active_stations().collect::<Vec<_>>() == {
                    let mut a = addrs.clone();
                    a.sort();
                    a
                }
        });
        if !final_ok {
            not_conv += 1;
        }
        let settle = b.fault_until + 3_000_000 * rate;
        let late_coll = b.collisions.iter().filter(|(_, y)| b.txs[*y].start > settle).count();
        tot_coll += late_coll;
        let self_offline = stations.iter().filter(|s| !s.fdl.connectivity_state().is_online()).count();
        if !final_ok || late_coll > 0 || seed < 3 { println!("  faults drop/corrupt/rxloss/coll={:?} crashes={} stalls={} late_coll={} self_offline={}", b.nfaults, ncrash, nstall, late_coll, self_offline); }
        tot_sync += sync_viol;
        if seed < 5 || !final_ok || !b.collisions.is_empty() {
            println!(
                "seed {seed}: polls={polls} txs={} collisions={} syncviol={} conv_at={:?}us final_ok={}",
                b.txs.len(),
                b.collisions.len(),
                sync_viol,
                conv_at,
                final_ok
            );
            for (x, y) in b.collisions.iter().take(3) {
                println!(
                    "   collision: [{}..{}] #{} {}  vs  [{}..] #{} {}",
                    b.txs[*x].start / rate,
                    b.txs[*x].end() / rate,
                    addrs[b.txs[*x].sender],
                    decode(&b.txs[*x].bytes),
                    b.txs[*y].start / rate,
                    addrs[b.txs[*y].sender],
                    decode(&b.txs[*y].bytes)
                );
            }
        }
    }
    println!("TOTAL seeds={seeds} collisions={tot_coll} syncviol={tot_sync} not_converged={not_conv}");
}
