// Throwaway probe: multi-station ring with jittered polls over an exact-time bus.
use profirust::fdl::{self, FdlActiveStation};
use profirust::phy::ProfibusPhy;
use profirust::time::Instant;
use profirust::Baudrate;
use std::cell::RefCell;
use std::rc::Rc;

const BIT: u64 = 1_000_000; // ticks per bit; 1us = baud ticks

#[derive(Clone, Debug)]
pub struct Tx {
    pub start: u64,
    pub sender: usize,
    pub bytes: Vec<u8>,
    pub seen: Vec<u8>,   // bytes as seen by receivers (after corruption)
    pub lost_for: u64,   // bitmask of receivers that miss this telegram entirely
}
impl Tx {
    pub fn end(&self) -> u64 {
        self.start + self.bytes.len() as u64 * 11 * BIT
    }
}

pub struct Bus {
    pub baud: u64,
    pub txs: Vec<Tx>,
    pub collisions: Vec<(usize, usize)>,
    pub rng: Rng,
    pub fault_until: u64,
    pub p_drop: u64,
    pub p_corrupt: u64,
    pub p_rxloss: u64,
    pub nfaults: [u64; 4],
}

pub struct SimPhy {
    bus: Rc<RefCell<Bus>>,
    id: usize,
    next_tx: usize,
    next_byte: usize,
    rx: Vec<u8>,
    tx_end: u64,
}

impl SimPhy {
    fn new(bus: Rc<RefCell<Bus>>, id: usize) -> Self {
        let next_tx = bus.borrow().txs.len();
        Self { bus, id, next_tx, next_byte: 0, rx: vec![], tx_end: 0 }
    }
    fn ticks(&self, now: Instant) -> u64 {
        now.total_micros() as u64 * self.bus.borrow().baud
    }
    fn pull(&mut self, now: u64) {
        let bus = self.bus.borrow();
        while self.next_tx < bus.txs.len() {
            let tx = &bus.txs[self.next_tx];
            if tx.sender == self.id || (tx.lost_for >> self.id) & 1 == 1 {
                self.next_tx += 1;
                self.next_byte = 0;
                continue;
            }
            while self.next_byte < tx.bytes.len() {
                let avail = tx.start + (self.next_byte as u64 + 1) * 11 * BIT;
                if avail <= now {
                    self.rx.push(tx.seen[self.next_byte]);
                    self.next_byte += 1;
                } else {
                    return;
                }
            }
            self.next_tx += 1;
            self.next_byte = 0;
        }
    }
}

impl ProfibusPhy for SimPhy {
    fn poll_transmission(&mut self, now: Instant) -> bool {
        self.ticks(now) < self.tx_end
    }
    fn transmit_data<F, R>(&mut self, now: Instant, f: F) -> R
    where
        F: FnOnce(&mut [u8]) -> (usize, R),
    {
        let mut buf = [0u8; 256];
        let (len, r) = f(&mut buf);
        if len > 0 {
            let start = self.ticks(now);
            assert!(start >= self.tx_end, "phy {} transmit while transmitting", self.id);
            let mut bus = self.bus.borrow_mut();
            let idx = bus.txs.len();
            // collision check against all earlier tx that end after start
            let mut seen = buf[..len].to_vec();
            let mut coll = None;
            for (j, t) in bus.txs.iter().enumerate().rev().take(8) {
                if t.end() > start {
                    coll = Some(j);
                    break;
                }
            }
            if let Some(j) = coll {
                bus.collisions.push((j, idx));
                bus.nfaults[3] += 1;
                let a_start = bus.txs[j].start;
                let a_end = bus.txs[j].end();
                let k = ((start - a_start) / (11 * BIT)) as usize;
                for b in k..bus.txs[j].seen.len() {
                    let r = bus.rng.next() as u8;
                    bus.txs[j].seen[b] ^= r | 1;
                }
                let nb = (((a_end - start) + 11 * BIT - 1) / (11 * BIT)) as usize;
                for b in 0..nb.min(seen.len()) {
                    let r = bus.rng.next() as u8;
                    seen[b] ^= r | 1;
                }
            }
            let mut lost_for = 0u64;
            if start < bus.fault_until {
                let r = bus.rng.range(0, 999);
                if r < bus.p_drop {
                    lost_for = u64::MAX;
                    bus.nfaults[0] += 1;
                } else if r < bus.p_drop + bus.p_corrupt {
                    let i = bus.rng.range(0, len as u64 - 1) as usize;
                    let bit = bus.rng.range(0, 7);
                    seen[i] ^= 1 << bit;
                    bus.nfaults[1] += 1;
                } else if r < bus.p_drop + bus.p_corrupt + bus.p_rxloss {
                    lost_for = 1 << bus.rng.range(0, 7);
                    bus.nfaults[2] += 1;
                }
            }
            let tx = Tx { start, sender: self.id, bytes: buf[..len].to_vec(), seen, lost_for };
            self.tx_end = tx.end();
            bus.txs.push(tx);
        }
        r
    }
    fn receive_data<F, R>(&mut self, now: Instant, f: F) -> R
    where
        F: FnOnce(&[u8]) -> (usize, R),
    {
        let t = self.ticks(now);
        assert!(t >= self.tx_end, "phy {} receive while transmitting", self.id);
        self.pull(t);
        let (drop, r) = f(&self.rx);
        assert!(drop <= self.rx.len());
        self.rx.drain(..drop);
        r
    }
}

pub struct Rng(pub u64);
impl Rng {
    pub fn next(&mut self) -> u64 {
        // splitmix64
        self.0 = self.0.wrapping_add(0x9E3779B97F4A7C15);
        let mut z = self.0;
        z = (z ^ (z >> 30)).wrapping_mul(0xBF58476D1CE4E5B9);
        z = (z ^ (z >> 27)).wrapping_mul(0x94D049BB133111EB);
        z ^ (z >> 31)
    }
    pub fn range(&mut self, lo: u64, hi: u64) -> u64 {
        // inclusive
        lo + self.next() % (hi - lo + 1)
    }
}

struct FmtLogger;
impl log::Log for FmtLogger {
    fn enabled(&self, _: &log::Metadata) -> bool {
        true
    }
    fn log(&self, record: &log::Record) {
        use std::fmt::Write;
        thread_local! { static BUF: RefCell<String> = RefCell::new(String::new()); }
        BUF.with(|b| {
            let mut b = b.borrow_mut();
            b.clear();
            let _ = write!(b, "{}", record.args());
            if std::env::var_os("PROBE_LOG").is_some() {
                eprintln!("[{:5}] {}", record.level(), b);
            }
        });
    }
    fn flush(&self) {}
}

pub struct Station {
    pub addr: u8,
    pub fdl: FdlActiveStation,
    pub phy: SimPhy,
    pub next_poll: u64, // us
    pub pmin: u64,
    pub pmax: u64,
}

fn baud_of(s: &str) -> Baudrate {
    match s {
        "9600" => Baudrate::B9600,
        "19200" => Baudrate::B19200,
        "93750" => Baudrate::B93750,
        "187500" => Baudrate::B187500,
        "500000" => Baudrate::B500000,
        "1500000" => Baudrate::B1500000,
        "12000000" => Baudrate::B12000000,
        _ => panic!(),
    }
}

fn decode(bytes: &[u8]) -> String {
    match fdl::Telegram::deserialize(bytes) {
        Some(Ok((t, _))) => format!("{:?}", t),
        _ => format!("{:02x?}", bytes),
    }
}


fn gen_telegram(rng: &mut Rng, ts: u8, alphabet: &[u8]) -> Vec<u8> {
    let mut buf = [0u8; 256];
    let pick = |rng: &mut Rng| alphabet[rng.range(0, alphabet.len() as u64 - 1) as usize];
    let n = match rng.range(0, 9) {
        0 | 1 | 2 => fdl::TelegramTx::new(&mut buf).send_token_telegram(pick(rng), pick(rng)).bytes_sent(),
        3 => fdl::TelegramTx::new(&mut buf).send_fdl_status_request(pick(rng) & 0x7f, pick(rng) & 0x7f).bytes_sent(),
        4 => {
            let st = [fdl::ResponseState::Slave, fdl::ResponseState::MasterNotReady, fdl::ResponseState::MasterWithoutToken, fdl::ResponseState::MasterInRing][rng.range(0, 3) as usize];
            fdl::TelegramTx::new(&mut buf).send_fdl_status_response(pick(rng) & 0x7f, pick(rng) & 0x7f, st, fdl::ResponseStatus::Ok).bytes_sent()
        }
        5 => fdl::TelegramTx::new(&mut buf).send_short_confirmation().bytes_sent(),
        6 | 7 => {
            let fcb = [fdl::FrameCountBit::First, fdl::FrameCountBit::High, fdl::FrameCountBit::Low, fdl::FrameCountBit::Inactive][rng.range(0, 3) as usize];
            let fc = if rng.range(0, 1) == 0 {
                fdl::FunctionCode::Request { fcb, req: fdl::RequestType::SrdLow }
            } else {
                fdl::FunctionCode::Response { state: fdl::ResponseState::Slave, status: fdl::ResponseStatus::DataLow }
            };
            let len = rng.range(0, 12) as usize;
            fdl::TelegramTx::new(&mut buf)
                .send_data_telegram(
                    fdl::DataTelegramHeader { da: pick(rng) & 0x7f, sa: pick(rng) & 0x7f, dsap: if rng.range(0, 1) == 0 { None } else { Some(60) }, ssap: if rng.range(0, 1) == 0 { None } else { Some(62) }, fc },
                    len,
                    |b| b.fill(0x5a),
                )
                .bytes_sent()
        }
        _ => {
            let n = rng.range(1, 8) as usize;
            for b in buf[..n].iter_mut() {
                *b = rng.next() as u8;
            }
            n
        }
    };
    let _ = ts;
    buf[..n].to_vec()
}

fn main() {
    log::set_logger(&FmtLogger).unwrap();
    log::set_max_level(log::LevelFilter::Trace);
    let args: Vec<String> = std::env::args().collect();
    let seeds: u64 = args[1].parse().unwrap();
    let ts: u8 = args[2].parse().unwrap();
    let hsa: u8 = args[3].parse().unwrap();
    let baud = Baudrate::B19200;
    let rate = baud.to_rate();
    let first: u64 = std::env::var("FIRST").ok().and_then(|v| v.parse().ok()).unwrap_or(0);
    let mut panics: std::collections::BTreeMap<String, (u64, u64)> = Default::default();
    std::panic::set_hook(Box::new(|_| {}));
    for seed in first..first + seeds {
        let r = std::panic::catch_unwind(|| {
            let mut rng = Rng(seed);
            let bus = Rc::new(RefCell::new(Bus { baud: rate, txs: vec![], collisions: vec![], rng: Rng(seed ^ 0x5555), fault_until: 0, p_drop: 0, p_corrupt: 0, p_rxloss: 0, nfaults: [0; 4] }));
            let mut f = FdlActiveStation::new(fdl::ParametersBuilder::new(ts, baud).highest_station_address(hsa).slot_bits(100).gap_wait_rotations(1).build());
            f.set_online();
            let mut phy = SimPhy::new(bus.clone(), 0);
            let alphabet = [ts, ts.wrapping_sub(1) % hsa, (ts + 1) % hsa, hsa - 1, 0, 3, 200, 127, 126];
            let mut t = 0u64;
            let mut next_inj = rng.range(0, 300_000);
            while t < 3_000_000 {
                f.poll(Instant::from_micros(t as i64), &mut phy, &mut ());
                if t >= next_inj {
                    // inject if adversary not currently transmitting
                    let mut b = bus.borrow_mut();
                    let now_t = t * rate;
                    let busy = b.txs.iter().rev().take(4).any(|x| x.sender == 1 && x.end() > now_t);
                    if !busy {
                        let bytes = gen_telegram(&mut rng, ts, &alphabet);
                        b.txs.push(Tx { start: now_t, sender: 1, seen: bytes.clone(), bytes, lost_for: 0 });
                    }
                    // next injection: either quickly (within slot) or after long silence
                    next_inj = t + match rng.range(0, 9) {
                        0..=5 => rng.range(500, 6000),
                        6..=8 => rng.range(6000, 40_000),
                        _ => rng.range(40_000, 400_000),
                    };
                }
                t += rng.range(100, 1200);
            }
        });
        if let Err(e) = r {
            let msg = if let Some(s) = e.downcast_ref::<String>() { s.clone() } else if let Some(s) = e.downcast_ref::<&str>() { s.to_string() } else { "?".into() };
            let key: String = msg.chars().take(110).collect();
            let ent = panics.entry(key).or_insert((0, seed));
            ent.0 += 1;
        }
    }
    for (k, (n, s)) in &panics {
        println!("{n:6} first_seed={s}  {k}");
    }
    println!("TOTAL seeds={seeds} panicking_runs={}", panics.values().map(|v| v.0).sum::<u64>());
}
