use profirust::fdl;
fn main() {
    // F7: SD2 frame with wrong repeated start delimiter
    let mut buf = [0u8; 64];
    let n = fdl::TelegramTx::new(&mut buf).send_data_telegram(
        fdl::DataTelegramHeader { da: 3, sa: 2, dsap: None, ssap: None, fc: fdl::FunctionCode::Request { fcb: fdl::FrameCountBit::Inactive, req: fdl::RequestType::SrdLow } },
        2, |b| b.copy_from_slice(&[1, 2])).bytes_sent();
    println!("frame = {:02x?}", &buf[..n]);
    buf[3] = 0x00;
    println!("F7: decode with buf[3]=0x00 -> {:?}", fdl::Telegram::deserialize(&buf[..n]).map(|r| r.map(|(t, l)| (format!("{:?}", t), l))));
}
