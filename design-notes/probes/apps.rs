// Throwaway probe: multi-station ring with jittered polls over an exact-time bus.
use profirust::fdl::{self, FdlActiveStation};
use profirust::phy::ProfibusPhy;
use profirust::time::Instant;
use profirust::Baudrate;
use std::cell::RefCell;
use std::rc::Rc;

const BIT: u64 = 1_000_000; // ticks per bit; 1us = baud ticks

#[derive(Clone, Debug)]
pub struct Tx {
    pub start: u64,
    pub sender: usize,
    pub bytes: Vec<u8>,
    pub seen: Vec<u8>,   // bytes as seen by receivers (after corruption)
    pub lost_for: u64,   // bitmask of receivers that miss this telegram entirely
}
impl Tx {
    pub fn end(&self) -> u64 {
        self.start + self.bytes.len() as u64 * 11 * BIT
    }
}

pub struct Bus {
    pub baud: u64,
    pub txs: Vec<Tx>,
    pub collisions: Vec<(usize, usize)>,
    pub rng: Rng,
    pub fault_until: u64,
    pub p_drop: u64,
    pub p_corrupt: u64,
    pub p_rxloss: u64,
    pub nfaults: [u64; 4],
}

pub struct SimPhy {
    bus: Rc<RefCell<Bus>>,
    id: usize,
    next_tx: usize,
    next_byte: usize,
    rx: Vec<u8>,
    tx_end: u64,
}

impl SimPhy {
    fn new(bus: Rc<RefCell<Bus>>, id: usize) -> Self {
        let next_tx = bus.borrow().txs.len();
        Self { bus, id, next_tx, next_byte: 0, rx: vec![], tx_end: 0 }
    }
    fn ticks(&self, now: Instant) -> u64 {
        now.total_micros() as u64 * self.bus.borrow().baud
    }
    fn pull(&mut self, now: u64) {
        let bus = self.bus.borrow();
        while self.next_tx < bus.txs.len() {
            let tx = &bus.txs[self.next_tx];
            if tx.sender == self.id || (tx.lost_for >> self.id) & 1 == 1 {
                self.next_tx += 1;
                self.next_byte = 0;
                continue;
            }
            while self.next_byte < tx.bytes.len() {
                let avail = tx.start + (self.next_byte as u64 + 1) * 11 * BIT;
                if avail <= now {
                    self.rx.push(tx.seen[self.next_byte]);
                    self.next_byte += 1;
                } else {
                    return;
                }
            }
            self.next_tx += 1;
            self.next_byte = 0;
        }
    }
}

impl ProfibusPhy for SimPhy {
    fn poll_transmission(&mut self, now: Instant) -> bool {
        self.ticks(now) < self.tx_end
    }
    fn transmit_data<F, R>(&mut self, now: Instant, f: F) -> R
    where
        F: FnOnce(&mut [u8]) -> (usize, R),
    {
        let mut buf = [0u8; 256];
        let (len, r) = f(&mut buf);
        if len > 0 {
            let start = self.ticks(now);
            assert!(start >= self.tx_end, "phy {} transmit while transmitting", self.id);
            let mut bus = self.bus.borrow_mut();
            let idx = bus.txs.len();
            // collision check against all earlier tx that end after start
            let mut seen = buf[..len].to_vec();
            let mut coll = None;
            for (j, t) in bus.txs.iter().enumerate().rev().take(8) {
                if t.end() > start {
                    coll = Some(j);
                    break;
                }
            }
            if let Some(j) = coll {
                bus.collisions.push((j, idx));
                bus.nfaults[3] += 1;
                let a_start = bus.txs[j].start;
                let a_end = bus.txs[j].end();
                let k = ((start - a_start) / (11 * BIT)) as usize;
                for b in k..bus.txs[j].seen.len() {
                    let r = bus.rng.next() as u8;
                    bus.txs[j].seen[b] ^= r | 1;
                }
                let nb = (((a_end - start) + 11 * BIT - 1) / (11 * BIT)) as usize;
                for b in 0..nb.min(seen.len()) {
                    let r = bus.rng.next() as u8;
                    seen[b] ^= r | 1;
                }
            }
            let mut lost_for = 0u64;
            if start < bus.fault_until {
                let r = bus.rng.range(0, 999);
                if r < bus.p_drop {
                    lost_for = u64::MAX;
                    bus.nfaults[0] += 1;
                } else if r < bus.p_drop + bus.p_corrupt {
                    let i = bus.rng.range(0, len as u64 - 1) as usize;
                    let bit = bus.rng.range(0, 7);
                    seen[i] ^= 1 << bit;
                    bus.nfaults[1] += 1;
                } else if r < bus.p_drop + bus.p_corrupt + bus.p_rxloss {
                    lost_for = 1 << bus.rng.range(0, 7);
                    bus.nfaults[2] += 1;
                }
            }
            let tx = Tx { start, sender: self.id, bytes: buf[..len].to_vec(), seen, lost_for };
            self.tx_end = tx.end();
            bus.txs.push(tx);
        }
        r
    }
    fn receive_data<F, R>(&mut self, now: Instant, f: F) -> R
    where
        F: FnOnce(&[u8]) -> (usize, R),
    {
        let t = self.ticks(now);
        assert!(t >= self.tx_end, "phy {} receive while transmitting", self.id);
        self.pull(t);
        let (drop, r) = f(&self.rx);
        assert!(drop <= self.rx.len());
        self.rx.drain(..drop);
        r
    }
}

pub struct Rng(pub u64);
impl Rng {
    pub fn next(&mut self) -> u64 {
        // splitmix64
        self.0 = self.0.wrapping_add(0x9E3779B97F4A7C15);
        let mut z = self.0;
        z = (z ^ (z >> 30)).wrapping_mul(0xBF58476D1CE4E5B9);
        z = (z ^ (z >> 27)).wrapping_mul(0x94D049BB133111EB);
        z ^ (z >> 31)
    }
    pub fn range(&mut self, lo: u64, hi: u64) -> u64 {
        // inclusive
        lo + self.next() % (hi - lo + 1)
    }
}

struct FmtLogger;
impl log::Log for FmtLogger {
    fn enabled(&self, _: &log::Metadata) -> bool {
        true
    }
    fn log(&self, record: &log::Record) {
        use std::fmt::Write;
        thread_local! { static BUF: RefCell<String> = RefCell::new(String::new()); }
        BUF.with(|b| {
            let mut b = b.borrow_mut();
            b.clear();
            let _ = write!(b, "{}", record.args());
            if std::env::var_os("PROBE_LOG").is_some() {
                eprintln!("[{:5}] {}", record.level(), b);
            }
        });
    }
    fn flush(&self) {}
}

pub struct Station {
    pub addr: u8,
    pub fdl: FdlActiveStation,
    pub phy: SimPhy,
    pub next_poll: u64, // us
    pub pmin: u64,
    pub pmax: u64,
}

fn baud_of(s: &str) -> Baudrate {
    match s {
        "9600" => Baudrate::B9600,
        "19200" => Baudrate::B19200,
        "93750" => Baudrate::B93750,
        "187500" => Baudrate::B187500,
        "500000" => Baudrate::B500000,
        "1500000" => Baudrate::B1500000,
        "12000000" => Baudrate::B12000000,
        _ => panic!(),
    }
}

fn decode(bytes: &[u8]) -> String {
    match fdl::Telegram::deserialize(bytes) {
        Some(Ok((t, _))) => format!("{:?}", t),
        _ => format!("{:02x?}", bytes),
    }
}


use profirust::fdl::{FdlApplication, HighPrioOnly, TelegramTx, TelegramTxResponse, Telegram};

#[derive(Debug, Clone)]
enum Call {
    Tx { da: u8, reply: bool, hp: bool },
    Decline,
    Reply { addr: u8, ok_src: bool },
    Timeout { addr: u8 },
}

struct ScriptApp {
    station: usize,
    app: usize,
    rng: Rng,
    appetite: u64, // per mille chance to send when asked
    targets: Vec<u8>,
    log: Rc<RefCell<Vec<(u64, usize, usize, Call)>>>,
    own: u8,
}

impl FdlApplication for ScriptApp {
    fn transmit_telegram(&mut self, now: Instant, _fdl: &FdlActiveStation, tx: TelegramTx, hp: HighPrioOnly) -> Option<TelegramTxResponse> {
        let t = now.total_micros() as u64;
        if self.rng.range(0, 999) < self.appetite {
            let da = self.targets[self.rng.range(0, self.targets.len() as u64 - 1) as usize];
            let kind = self.rng.range(0, 3);
            let len = self.rng.range(0, 20) as usize;
            let req = match kind { 0 => fdl::RequestType::SdnLow, 1 => fdl::RequestType::SrdLow, 2 => fdl::RequestType::SrdHigh, _ => fdl::RequestType::FdlStatus };
            let r = if req == fdl::RequestType::FdlStatus {
                tx.send_fdl_status_request(da, self.own)
            } else {
                tx.send_data_telegram(fdl::DataTelegramHeader { da, sa: self.own, dsap: Some(33), ssap: Some(34), fc: fdl::FunctionCode::Request { fcb: fdl::FrameCountBit::Inactive, req } }, len, |b| b.fill(0x11))
            };
            self.log.borrow_mut().push((t, self.station, self.app, Call::Tx { da, reply: r.expects_reply().is_some(), hp: hp == HighPrioOnly::Yes }));
            Some(r)
        } else {
            self.log.borrow_mut().push((t, self.station, self.app, Call::Decline));
            None
        }
    }
    fn receive_reply(&mut self, now: Instant, _fdl: &FdlActiveStation, addr: u8, telegram: Telegram) {
        let ok_src = match &telegram {
            Telegram::ShortConfirmation(_) => true,
            Telegram::Data(d) => d.h.sa == addr && d.h.da == self.own && d.is_response().is_some(),
            _ => false,
        };
        self.log.borrow_mut().push((now.total_micros() as u64, self.station, self.app, Call::Reply { addr, ok_src }));
    }
    fn handle_timeout(&mut self, now: Instant, _fdl: &FdlActiveStation, addr: u8) {
        self.log.borrow_mut().push((now.total_micros() as u64, self.station, self.app, Call::Timeout { addr }));
    }
}


fn authority_check(txs: &[Tx], addrs: &[u8], slot_bits: u64, rate: u64, online_at: &[u64]) -> Vec<String> {
    let mut v = vec![];
    let mut holder: Option<u8> = None;
    let mut last_passer: Option<u8> = None;
    let mut pending: Option<(u8, u8)> = None; // (requester, da)
    let mut last_end: Option<u64> = None;
    let mut order: Vec<usize> = (0..txs.len()).collect();
    order.sort_by_key(|i| txs[*i].start);
    for &i in &order {
        let tx = &txs[i];
        let s_addr: Option<u8> = addrs.get(tx.sender).copied(); // None = stub responder
        let t = match Telegram::deserialize(&tx.bytes) { Some(Ok((t, n))) if n == tx.bytes.len() => t, _ => { v.push(format!("undecodable frame at {}", tx.start / rate)); continue; } };
        let was_pending = pending.take();
        match (&t, s_addr) {
            (Telegram::Token(tk), Some(s)) => {
                if tk.sa != s { v.push(format!("token with foreign sa at {}", tx.start / rate)); }
                if tk.sa == tk.da {
                    if holder != Some(s) {
                        let to = (6 + 2 * s as u64) * slot_bits * BIT;
                        let since = last_end.unwrap_or(online_at[tx.sender] * rate);
                        if tx.start < since + to - 2 * rate { v.push(format!("#{s} claims at {} after only {} bits of silence (needs {})", tx.start / rate, (tx.start - since) / BIT, to / BIT)); }
                    }
                    holder = Some(s);
                    last_passer = None;
                } else {
                    if !(holder == Some(s) || last_passer == Some(s)) { v.push(format!("#{s} passes token at {} but holder={:?} last_passer={:?}", tx.start / rate, holder, last_passer)); }
                    holder = Some(tk.da);
                    last_passer = Some(s);
                }
            }
            (Telegram::Data(d), _) if d.is_response().is_some() => {
                match was_pending { Some((rq, da)) if Some(da) == s_addr.or(Some(d.h.sa)) && d.h.da == rq => {}, o => v.push(format!("reply by {:?} at {} without matching request {:?}", s_addr, tx.start / rate, o)) }
            }
            (Telegram::ShortConfirmation(_), _) => { if was_pending.is_none() { v.push(format!("SC without request at {}", tx.start / rate)); } }
            (Telegram::Data(d), Some(s)) => {
                if holder != Some(s) { v.push(format!("#{s} sends request at {} but holder={:?}", tx.start / rate, holder)); }
                last_passer = None;
                if let fdl::FunctionCode::Request { req, .. } = d.h.fc { if req.expects_reply() { pending = Some((s, d.h.da)); } }
            }
            (x, y) => v.push(format!("unexpected {:?} by {:?}", x, y)),
        }
        if let Some(s) = s_addr { if holder == Some(s) && !matches!(t, Telegram::Token(_)) { last_passer = None; } }
        last_end = Some(tx.end());
    }
    v
}
fn main() {
    log::set_logger(&FmtLogger).unwrap();
    log::set_max_level(log::LevelFilter::Trace);
    let args: Vec<String> = std::env::args().collect();
    let seeds: u64 = args[1].parse().unwrap();
    let ttr: u32 = args[2].parse().unwrap();
    let addrs: Vec<u8> = args[3..].iter().map(|a| a.parse().unwrap()).collect();
    let baud = Baudrate::B500000;
    let rate = baud.to_rate();
    let slot_bits = 400u16;
    let hsa = 12u8;
    let responders = [20u8, 21];
    let mut bad = 0;
    let mut maxrot_all = 0u64;
    for seed in 0..seeds {
        let mut rng = Rng(seed);
        let bus = Rc::new(RefCell::new(Bus { baud: rate, txs: vec![], collisions: vec![], rng: Rng(seed ^ 0x5555), fault_until: 0, p_drop: 0, p_corrupt: 0, p_rxloss: 0, nfaults: [0; 4] }));
        let log: Rc<RefCell<Vec<(u64, usize, usize, Call)>>> = Default::default();
        let mut stations: Vec<(FdlActiveStation, SimPhy, Vec<ScriptApp>, u64)> = addrs.iter().enumerate().map(|(i, &a)| {
            let mut f = FdlActiveStation::new(fdl::ParametersBuilder::new(a, baud).highest_station_address(hsa).slot_bits(slot_bits).gap_wait_rotations(5).token_rotation_bits(ttr).build());
            f.set_online();
            let napps = rng.range(0, 3) as usize;
            let apps = (0..napps).map(|k| {
                let mut targets: Vec<u8> = addrs.iter().copied().filter(|x| *x != a).collect();
                targets.extend_from_slice(&responders);
                targets.push(30); // nobody
                ScriptApp { station: i, app: k, rng: Rng(seed * 977 + (i * 7 + k) as u64), appetite: [0, 300, 800, 1000][rng.range(0, 3) as usize], targets, log: log.clone(), own: a }
            }).collect();
            (f, SimPhy::new(bus.clone(), i), apps, rng.range(0, 50))
        }).collect();
        let end_us = 400_000u64;
        let nst = stations.len();
        loop {
            let (i, _) = stations.iter().enumerate().min_by_key(|(i, s)| (s.3, *i)).unwrap();
            let t = stations[i].3;
            if t >= end_us { break; }
            let ntx = bus.borrow().txs.len();
            {
                let (f, phy, apps, _) = &mut stations[i];
                let mut refs: Vec<&mut dyn FdlApplication> = apps.iter_mut().map(|a| a as &mut dyn FdlApplication).collect();
                f.poll_multi(Instant::from_micros(t as i64), phy, &mut refs);
            }
            // responders
            {
                let mut b = bus.borrow_mut();
                if b.txs.len() > ntx {
                    let tx = b.txs[ntx].clone();
                    if let Some(Ok((Telegram::Data(d), _))) = Telegram::deserialize(&tx.bytes) {
                        if let fdl::FunctionCode::Request { req, .. } = d.h.fc {
                            if req.expects_reply() && responders.contains(&d.h.da) {
                                let mut buf = [0u8; 256];
                                let n = TelegramTx::new(&mut buf).send_data_telegram(fdl::DataTelegramHeader { da: d.h.sa, sa: d.h.da, dsap: d.h.ssap, ssap: d.h.dsap, fc: fdl::FunctionCode::Response { state: fdl::ResponseState::Slave, status: fdl::ResponseStatus::DataLow } }, 3, |b| b.fill(7)).bytes_sent();
                                let start = tx.end() + b.rng.range(11, 100) * BIT;
                                b.txs.push(Tx { start, sender: nst, seen: buf[..n].to_vec(), bytes: buf[..n].to_vec(), lost_for: 0 });
                            }
                        }
                    }
                }
            }
            stations[i].3 = t + rng.range(5, 40);
        }
        // ---- check call log invariants per station
        let log = log.borrow();
        let mut problems = vec![];
        for si in 0..nst {
            let calls: Vec<_> = log.iter().filter(|c| c.1 == si).collect();
            let mut outstanding: Option<(usize, u8)> = None;
            for c in &calls {
                match (&c.3, outstanding) {
                    (Call::Tx { da, reply, .. }, None) => { if *reply { outstanding = Some((c.2, *da)); } }
                    (Call::Decline, None) => {}
                    (Call::Reply { addr, ok_src }, Some((a, d))) => { if a != c.2 || d != *addr || !ok_src { problems.push(format!("bad reply {:?}", c)); } outstanding = None; }
                    (Call::Timeout { addr }, Some((a, d))) => { if a != c.2 || d != *addr { problems.push(format!("bad timeout {:?}", c)); } outstanding = None; }
                    (x, o) => problems.push(format!("call {:?} with outstanding {:?}", x, o)),
                }
            }
        }
        // token rotation: per station times of token receipt from trace
        let b = bus.borrow();
        let mut last_recv: Vec<Option<u64>> = vec![None; nst];
        let mut maxrot = 0u64;
        for tx in b.txs.iter() {
            if let Some(Ok((Telegram::Token(tk), _))) = Telegram::deserialize(&tx.bytes) {
                if let Some(di) = addrs.iter().position(|a| *a == tk.da) {
                    if tk.da != tk.sa {
                        if let Some(prev) = last_recv[di] { if tx.start > 150_000 * rate { maxrot = maxrot.max((tx.end() - prev) / BIT); } }
                        last_recv[di] = Some(tx.end());
                    }
                }
            }
        }
        maxrot_all = maxrot_all.max(maxrot);
        let online_at = vec![0u64; nst];
        let av = authority_check(&b.txs, &addrs, slot_bits as u64, rate, &online_at);
        if !av.is_empty() { problems.push(format!("authority: {:?}", &av[..av.len().min(3)])); }
        if !problems.is_empty() || !b.collisions.is_empty() { bad += 1; if bad <= 5 { println!("seed {seed}: collisions={} problems={:?}", b.collisions.len(), &problems[..problems.len().min(3)]); } }
        if seed < 3 { println!("seed {seed}: calls={} txs={} maxrot={}bits (ttr={ttr})", log.len(), b.txs.len(), maxrot); }
    }
    println!("TOTAL seeds={seeds} bad={bad} maxrot={maxrot_all} bits");
}
