// Throwaway probe: reference decoder R1 vs. profirust decoder on prefixes of damaged frames.
use profirust::fdl;
#[derive(Debug, PartialEq, Clone)]
enum V { More, Reject, Accept(String, usize) }

// R1: written from the frame format. announced() gives the total frame length implied by the first bytes.
fn announced(b: &[u8]) -> Option<usize> {
    match b.first()? { 0xE5 => Some(1), 0xDC => Some(3), 0x10 => Some(6), 0xA2 => Some(14), 0x68 => b.get(1).map(|le| *le as usize + 6), _ => Some(1) }
}
fn fc_ok(fc: u8) -> bool {
    if fc & 0x40 != 0 { matches!(fc & 0x8f, 0x80 | 0 | 3 | 4 | 5 | 6 | 7 | 9 | 12 | 13 | 14 | 15) } else { matches!(fc & 0x0f, 0 | 1 | 2 | 3 | 8 | 9 | 10 | 12 | 13) }
}
fn r1(b: &[u8]) -> V {
    if b.is_empty() { return V::More; }
    match b[0] {
        0xE5 => V::Accept("SC".into(), 1),
        0xDC => if b.len() < 3 { V::More } else { V::Accept(format!("T {} {}", b[1], b[2]), 3) },
        0x10 | 0xA2 | 0x68 => {
            let (hdr, le) = match b[0] {
                0x10 => (1usize, 3usize), 0xA2 => (1, 11),
                _ => {
                    if b.len() < 2 { return V::More; }
                    let le = b[1] as usize;
                    if le < 3 { return V::Reject; }       // early reject is allowed for the reference
                    if b.len() >= 3 && b[2] != b[1] { return V::Reject; }
                    if b.len() >= 4 && b[3] != 0x68 { return V::Reject; }
                    (4, le)
                }
            };
            let total = hdr + le + 2;
            if b.len() < total { return V::More; }
            let body = &b[hdr..hdr + le];
            let fcs = body.iter().fold(0u8, |a, x| a.wrapping_add(*x));
            if b[hdr + le] != fcs || b[hdr + le + 1] != 0x16 { return V::Reject; }
            if !fc_ok(body[2]) { return V::Reject; }
            let mut n = 3;
            if body[0] & 0x80 != 0 { if le < n + 1 { return V::Reject; } n += 1; }
            if body[1] & 0x80 != 0 { if le < n + 1 { return V::Reject; } n += 1; }
            V::Accept(format!("D da={} sa={} fc={:02x} ext={:?} pdu={:?}", body[0] & 0x7f, body[1] & 0x7f, body[2], &body[3..n], &body[n..]), total)
        }
        _ => V::Reject,
    }
}
fn real(b: &[u8]) -> V {
    match fdl::Telegram::deserialize(b) {
        None => V::More,
        Some(Err(())) => V::Reject,
        Some(Ok((t, n))) => V::Accept(match t {
            fdl::Telegram::ShortConfirmation(_) => "SC".into(),
            fdl::Telegram::Token(t) => format!("T {} {}", t.da, t.sa),
            fdl::Telegram::Data(d) => { let mut ext = vec![]; if let Some(x) = d.h.dsap { ext.push(x); } if let Some(x) = d.h.ssap { ext.push(x); } format!("D da={} sa={} fc={:02x} ext={:?} pdu={:?}", d.h.da, d.h.sa, raw_fc(b), &ext[..], d.pdu) }
        }, n),
    }
}
fn raw_fc(b: &[u8]) -> u8 { if b[0] == 0x68 { b[6] } else { b[3] } }
struct Rng(u64);
impl Rng { fn next(&mut self) -> u64 { self.0 = self.0.wrapping_add(0x9E3779B97F4A7C15); let mut z = self.0; z = (z ^ (z >> 30)).wrapping_mul(0xBF58476D1CE4E5B9); z = (z ^ (z >> 27)).wrapping_mul(0x94D049BB133111EB); z ^ (z >> 31) } fn range(&mut self, lo: u64, hi: u64) -> u64 { lo + self.next() % (hi - lo + 1) } }

fn compare(b: &[u8], stats: &mut std::collections::BTreeMap<String, (u64, Vec<u8>)>) {
    // check every prefix
    let mut prev: Option<V> = None;
    for l in 0..=b.len() {
        let p = &b[..l];
        let (r, s) = (r1(p), real(p));
        let ok = match (&r, &s) {
            (V::Accept(a, n), V::Accept(c, m)) => a == c && n == m,
            (V::More, V::More) => true,
            (V::Reject, V::Reject) => true,
            (V::Reject, V::More) => announced(p).map(|t| l < t).unwrap_or(true), // late rejection
            _ => false,
        };
        if !ok { let e = stats.entry(format!("ref={:?} real={:?}", kind(&r), kind(&s))).or_insert((0, p.to_vec())); e.0 += 1; }
        if let Some(pv) = &prev { if matches!(pv, V::Accept(..) | V::Reject) && *pv != s { let e = stats.entry(format!("prefix flip {:?}->{:?}", kind(pv), kind(&s))).or_insert((0, p.to_vec())); e.0 += 1; } }
        prev = Some(s);
    }
}
fn kind(v: &V) -> &'static str { match v { V::More => "More", V::Reject => "Reject", V::Accept(..) => "Accept" } }

fn main() {
    let mut rng = Rng(7);
    let mut stats = Default::default();
    let mut n = 0u64;
    for _ in 0..60000 {
        let mut buf = [0u8; 300];
        let len = match rng.range(0, 9) { 0 => 0, 1 => 8, 2 => rng.range(240, 246) as usize, _ => rng.range(0, 40) as usize };
        let dsap = if rng.range(0, 1) == 0 { None } else { Some(rng.next() as u8) };
        let ssap = if rng.range(0, 1) == 0 { None } else { Some(rng.next() as u8) };
        let len = len.min(246 - dsap.is_some() as usize - ssap.is_some() as usize);
        let fc = fdl::FunctionCode::from_byte([0x49u8, 0x6c, 0x5d, 0x7c, 0x08, 0x00, 0x03, 0x2a, 0x44, 0xc0][rng.range(0, 9) as usize]).unwrap();
        let k = match rng.range(0, 9) { 0 => fdl::TelegramTx::new(&mut buf).send_token_telegram(rng.next() as u8, rng.next() as u8).bytes_sent(), 1 => fdl::TelegramTx::new(&mut buf).send_short_confirmation().bytes_sent(),
            _ => fdl::TelegramTx::new(&mut buf).send_data_telegram(fdl::DataTelegramHeader { da: (rng.next() as u8) & 0x7f, sa: (rng.next() as u8) & 0x7f, dsap, ssap, fc }, len, |b| for x in b.iter_mut() { *x = rng.next() as u8; }).bytes_sent() };
        let mut f = buf[..k].to_vec();
        match rng.range(0, 5) {
            0 => {}
            1 | 2 => { let i = rng.range(0, k as u64 - 1) as usize; f[i] = rng.next() as u8; }
            3 => { let i = rng.range(0, k as u64 - 1) as usize; f[i] ^= 1 << rng.range(0, 7); }
            4 => { let i = rng.range(0, (k as u64 - 1).min(6)) as usize; f[i] = [0x10u8, 0x68, 0xa2, 0xdc, 0xe5, 0x16, 0x00, 0x02, 0xff][rng.range(0, 8) as usize]; }
            _ => { let extra = rng.range(1, 6); for _ in 0..extra { f.push(rng.next() as u8); } }
        }
        compare(&f, &mut stats);
        n += 1;
    }
    for _ in 0..40000 { let l = rng.range(1, 20) as usize; let mut f: Vec<u8> = (0..l).map(|_| rng.next() as u8).collect(); if rng.range(0, 1) == 0 { f[0] = [0x10u8, 0x68, 0xa2, 0xdc, 0xe5][rng.range(0, 4) as usize]; } if f[0] == 0x68 && l > 3 && rng.range(0, 1) == 0 { f[1] = rng.range(0, 12) as u8; f[2] = f[1]; f[3] = 0x68; } compare(&f, &mut stats); n += 1; }
    for (k, (c, ex)) in &stats { println!("{c:8} {k}   e.g. {:02x?}", ex); }
    println!("cases={n} discrepancy kinds={}", stats.len());
}
