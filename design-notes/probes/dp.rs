// Throwaway probe 2: one real FDL+DP master, reference slaves, message loss.
use profirust::dp;
use profirust::fdl::{self, FdlActiveStation};
use profirust::phy::ProfibusPhy;
use profirust::time::Instant;
use profirust::Baudrate;
use std::cell::RefCell;
use std::rc::Rc;

const BIT: u64 = 1_000_000;

#[derive(Clone, Debug)]
struct Tx {
    start: u64,
    sender: usize, // 0 = master, 1.. = slaves
    bytes: Vec<u8>,
    deliver: bool,
}
impl Tx {
    fn end(&self) -> u64 {
        self.start + self.bytes.len() as u64 * 11 * BIT
    }
}

#[derive(Clone, Copy, PartialEq, Debug)]
enum SlSt {
    WaitPrm,
    WaitCfg,
    DataExch,
}

struct Slave {
    addr: u8,
    ident: u16,
    cfg: Vec<u8>,
    in_len: usize,
    st: SlSt,
    master: u8,
    last_fcb: Option<bool>,
    last_resp: Option<Vec<u8>>,
    counter: u8,
    diag_pending: bool,
    ext_diag: Vec<u8>,
}

fn build<F: FnOnce(fdl::TelegramTx) -> fdl::TelegramTxResponse>(f: F) -> Vec<u8> {
    let mut buf = [0u8; 256];
    let n = f(fdl::TelegramTx::new(&mut buf)).bytes_sent();
    buf[..n].to_vec()
}

impl Slave {
    fn power_cycle(&mut self) {
        self.st = SlSt::WaitPrm;
        self.master = 255;
        self.last_fcb = None;
        self.last_resp = None;
    }
    fn handle(&mut self, t: &fdl::DataTelegram) -> Option<Vec<u8>> {
        if t.h.da != self.addr {
            return None;
        }
        let (fcbit, req) = match t.h.fc {
            fdl::FunctionCode::Request { fcb, req } => (fcb, req),
            _ => return None,
        };
        if fcbit.fcv() {
            if Some(fcbit.fcb()) == self.last_fcb && self.last_resp.is_some() {
                return self.last_resp.clone();
            }
            self.last_fcb = Some(fcbit.fcb());
        } else if fcbit.fcb() {
            self.last_fcb = Some(true);
        }
        let m = t.h.sa;
        let resp: Option<Vec<u8>> = if req == fdl::RequestType::FdlStatus {
            Some(build(|tx| {
                tx.send_fdl_status_response(m, self.addr, fdl::ResponseState::Slave, fdl::ResponseStatus::Ok)
            }))
        } else {
            match t.h.dsap {
                Some(60) => {
                    let mut st1 = 0u8;
                    let mut st2 = 0x04u8;
                    if self.st != SlSt::DataExch {
                        st1 |= 0x02;
                    }
                    if self.st == SlSt::WaitPrm {
                        st2 |= 0x01;
                    }
                    if !self.ext_diag.is_empty() {
                        st1 |= 0x08;
                    }
                    self.diag_pending = false;
                    let mut pdu = vec![st1, st2, 0, self.master, (self.ident >> 8) as u8, self.ident as u8];
                    pdu.extend_from_slice(&self.ext_diag);
                    Some(build(|tx| {
                        tx.send_data_telegram(
                            fdl::DataTelegramHeader {
                                da: m,
                                sa: self.addr,
                                dsap: Some(62),
                                ssap: Some(60),
                                fc: fdl::FunctionCode::Response {
                                    state: fdl::ResponseState::Slave,
                                    status: fdl::ResponseStatus::DataLow,
                                },
                            },
                            pdu.len(),
                            |b| b.copy_from_slice(&pdu),
                        )
                    }))
                }
                Some(61) => {
                    if t.pdu.len() >= 7 && u16::from_be_bytes([t.pdu[4], t.pdu[5]]) == self.ident {
                        self.master = m;
                        self.st = SlSt::WaitCfg;
                    }
                    Some(build(|tx| tx.send_short_confirmation()))
                }
                Some(62) => {
                    if self.st != SlSt::WaitPrm && t.pdu == &self.cfg[..] {
                        self.st = SlSt::DataExch;
                    } else {
                        self.st = SlSt::WaitPrm;
                    }
                    Some(build(|tx| tx.send_short_confirmation()))
                }
                Some(58) => None,
                None => {
                    if self.st == SlSt::DataExch && m == self.master {
                        self.counter = self.counter.wrapping_add(1);
                        if self.in_len == 0 {
                            Some(build(|tx| tx.send_short_confirmation()))
                        } else {
                            let inputs = vec![self.counter; self.in_len];
                            let status = if self.diag_pending {
                                fdl::ResponseStatus::DataHigh
                            } else {
                                fdl::ResponseStatus::DataLow
                            };
                            Some(build(|tx| {
                                tx.send_data_telegram(
                                    fdl::DataTelegramHeader {
                                        da: m,
                                        sa: self.addr,
                                        dsap: None,
                                        ssap: None,
                                        fc: fdl::FunctionCode::Response { state: fdl::ResponseState::Slave, status },
                                    },
                                    inputs.len(),
                                    |b| b.copy_from_slice(&inputs),
                                )
                            }))
                        }
                    } else {
                        Some(build(|tx| {
                            tx.send_data_telegram(
                                fdl::DataTelegramHeader {
                                    da: m,
                                    sa: self.addr,
                                    dsap: None,
                                    ssap: None,
                                    fc: fdl::FunctionCode::Response {
                                        state: fdl::ResponseState::Slave,
                                        status: fdl::ResponseStatus::SapNotEnabled,
                                    },
                                },
                                0,
                                |_| (),
                            )
                        }))
                    }
                }
                _ => None,
            }
        };
        if fcbit.fcv() || fcbit.fcb() {
            self.last_resp = resp.clone();
        }
        resp
    }
}

struct World {
    baud: u64,
    txs: Vec<Tx>,
    slaves: Vec<Slave>,
    rng: Rng,
    p_req_loss: u64, // per mille
    p_rep_loss: u64,
    faults_until: u64, // ticks
    n_req_lost: u64,
    n_rep_lost: u64,
    collisions: u64,
}

struct MasterPhy {
    w: Rc<RefCell<World>>,
    next_tx: usize,
    next_byte: usize,
    rx: Vec<u8>,
    tx_end: u64,
}

impl MasterPhy {
    fn ticks(&self, now: Instant) -> u64 {
        now.total_micros() as u64 * self.w.borrow().baud
    }
    fn pull(&mut self, now: u64) {
        let w = self.w.borrow();
        while self.next_tx < w.txs.len() {
            let tx = &w.txs[self.next_tx];
            if tx.sender == 0 || !tx.deliver {
                self.next_tx += 1;
                self.next_byte = 0;
                continue;
            }
            while self.next_byte < tx.bytes.len() {
                let avail = tx.start + (self.next_byte as u64 + 1) * 11 * BIT;
                if avail <= now {
                    self.rx.push(tx.bytes[self.next_byte]);
                    self.next_byte += 1;
                } else {
                    return;
                }
            }
            self.next_tx += 1;
            self.next_byte = 0;
        }
    }
}

impl ProfibusPhy for MasterPhy {
    fn poll_transmission(&mut self, now: Instant) -> bool {
        self.ticks(now) < self.tx_end
    }
    fn transmit_data<F, R>(&mut self, now: Instant, f: F) -> R
    where
        F: FnOnce(&mut [u8]) -> (usize, R),
    {
        let mut buf = [0u8; 256];
        let (len, r) = f(&mut buf);
        if len > 0 {
            let start = self.ticks(now);
            let mut w = self.w.borrow_mut();
            if let Some(last) = w.txs.last() {
                if last.end() > start {
                    w.collisions += 1;
                }
            }
            let tx = Tx { start, sender: 0, bytes: buf[..len].to_vec(), deliver: true };
            self.tx_end = tx.end();
            let end = tx.end();
            w.txs.push(tx);
            // let slaves react
            let bytes = buf[..len].to_vec();
            if let Some(Ok((fdl::Telegram::Data(t), _))) = fdl::Telegram::deserialize(&bytes) {
                let faults = start < w.faults_until;
                let lose_req = faults && w.rng.range(0, 999) < w.p_req_loss;
                if lose_req {
                    w.n_req_lost += 1;
                } else {
                    let mut reply = None;
                    for (i, s) in w.slaves.iter_mut().enumerate() {
                        if let Some(r) = s.handle(&t) {
                            reply = Some((i, r));
                        }
                    }
                    let reply = reply.map(|(i, r)| {
                        let byz: u64 = std::env::var("BYZ").ok().and_then(|v| v.parse().ok()).unwrap_or(0);
                        if w.rng.range(0, 999) < byz {
                            let sl = 10 + i as u8;
                            let rng = &mut w.rng;
                            let nr = match rng.range(0, 7) {
                                0 => build(|tx| tx.send_short_confirmation()),
                                1 => build(|tx| tx.send_token_telegram(2, sl)),
                                2 | 3 | 4 => {
                                    let status = [fdl::ResponseStatus::Ok, fdl::ResponseStatus::UserError, fdl::ResponseStatus::NoResources, fdl::ResponseStatus::SapNotEnabled, fdl::ResponseStatus::DataLow, fdl::ResponseStatus::NoDataReady, fdl::ResponseStatus::DataHigh, fdl::ResponseStatus::NotReceivedDataLow, fdl::ResponseStatus::NotReceivedDataHigh][rng.range(0, 8) as usize];
                                    let len = rng.range(0, 12) as usize;
                                    let dsap = [None, Some(62), Some(60), Some(1)][rng.range(0, 3) as usize];
                                    let ssap = [None, Some(60), Some(62), Some(1)][rng.range(0, 3) as usize];
                                    let sa = if rng.range(0, 9) == 0 { 11 } else { sl };
                                    let da = if rng.range(0, 9) == 0 { 3 } else { 2 };
                                    let mut pdu = vec![0u8; len];
                                    for b in pdu.iter_mut() { *b = rng.next() as u8; }
                                    build(|tx| tx.send_data_telegram(fdl::DataTelegramHeader { da, sa, dsap, ssap, fc: fdl::FunctionCode::Response { state: fdl::ResponseState::Slave, status } }, len, |b| b.copy_from_slice(&pdu)))
                                }
                                5 => {
                                    // diag with random ext diag incl. zero-length blocks
                                    let n = rng.range(0, 6) as usize;
                                    let mut pdu = vec![0x08, 0x04, 0, 2, 0x12, 0x34];
                                    for _ in 0..n { pdu.push([0x00u8, 0x40, 0x41, 0x02, 0x81, 0xff, 0x05][rng.range(0, 6) as usize]); }
                                    build(|tx| tx.send_data_telegram(fdl::DataTelegramHeader { da: 2, sa: sl, dsap: Some(62), ssap: Some(60), fc: fdl::FunctionCode::Response { state: fdl::ResponseState::Slave, status: fdl::ResponseStatus::DataLow } }, pdu.len(), |b| b.copy_from_slice(&pdu)))
                                }
                                6 => build(|tx| tx.send_fdl_status_request(2, sl)),
                                _ => { let n = rng.range(1, 9) as usize; (0..n).map(|_| rng.next() as u8).collect() }
                            };
                            (i, nr)
                        } else { (i, r) }
                    });
                    if let Some((i, r)) = reply {
                        let lose_rep = faults && w.rng.range(0, 999) < w.p_rep_loss;
                        if lose_rep {
                            w.n_rep_lost += 1;
                        }
                        let tsdr = w.rng.range(11, 60);
                        w.txs.push(Tx { start: end + tsdr * BIT, sender: i + 1, bytes: r, deliver: !lose_rep });
                    }
                }
            }
        }
        r
    }
    fn receive_data<F, R>(&mut self, now: Instant, f: F) -> R
    where
        F: FnOnce(&[u8]) -> (usize, R),
    {
        let t = self.ticks(now);
        assert!(t >= self.tx_end);
        self.pull(t);
        let (drop, r) = f(&self.rx);
        self.rx.drain(..drop);
        r
    }
}

pub struct Rng(pub u64);
impl Rng {
    pub fn next(&mut self) -> u64 {
        self.0 = self.0.wrapping_add(0x9E3779B97F4A7C15);
        let mut z = self.0;
        z = (z ^ (z >> 30)).wrapping_mul(0xBF58476D1CE4E5B9);
        z = (z ^ (z >> 27)).wrapping_mul(0x94D049BB133111EB);
        z ^ (z >> 31)
    }
    pub fn range(&mut self, lo: u64, hi: u64) -> u64 {
        lo + self.next() % (hi - lo + 1)
    }
}

struct FmtLogger;
impl log::Log for FmtLogger {
    fn enabled(&self, _: &log::Metadata) -> bool {
        true
    }
    fn log(&self, record: &log::Record) {
        let s = format!("{}", record.args());
        if std::env::var_os("PROBE_LOG").is_some() {
            eprintln!("[{:5}] {}", record.level(), s);
        }
    }
    fn flush(&self) {}
}

fn fc_bits(b: &[u8]) -> Option<(u8, bool, bool, Option<u8>)> {
    // (da, fcv, fcb, dsap)
    if let Some(Ok((fdl::Telegram::Data(t), _))) = fdl::Telegram::deserialize(b) {
        if let fdl::FunctionCode::Request { fcb, .. } = t.h.fc {
            return Some((t.h.da, fcb.fcv(), fcb.fcb(), t.h.dsap));
        }
    }
    None
}

fn main() {
    log::set_logger(&FmtLogger).unwrap();
    log::set_max_level(log::LevelFilter::Trace);
    let args: Vec<String> = std::env::args().collect();
    // dp <seeds> <n_slaves> <req_loss_permille> <rep_loss_permille> <retry> <userdiag 0/1>
    let seeds: u64 = args[1].parse().unwrap();
    let n_slaves: usize = args[2].parse().unwrap();
    let p_req: u64 = args[3].parse().unwrap();
    let p_rep: u64 = args[4].parse().unwrap();
    let retry: u8 = args[5].parse().unwrap();
    let userdiag: bool = args[6] == "1";
    let baud = Baudrate::B500000;
    let rate = baud.to_rate();
    let mut stuck = 0;
    let mut fcb_viol = 0;
    let mut panics = 0;
    let mut pmap: std::collections::BTreeMap<String, u64> = Default::default();
    std::panic::set_hook(Box::new(|_| {}));
    for seed in 0..seeds {
        let res = std::panic::catch_unwind(|| {
            let mut rng = Rng(seed ^ 0xABCD);
            let slaves: Vec<Slave> = (0..n_slaves)
                .map(|i| Slave {
                    addr: 10 + i as u8,
                    ident: 0x1234,
                    cfg: vec![0x20, 0x10],
                    in_len: 2,
                    st: SlSt::WaitPrm,
                    master: 255,
                    last_fcb: None,
                    last_resp: None,
                    counter: 0,
                    diag_pending: false,
                    ext_diag: vec![],
                })
                .collect();
            let fault_ms = 300u64;
            let total_ms = 900u64;
            let w = Rc::new(RefCell::new(World {
                baud: rate,
                txs: vec![],
                slaves,
                rng: Rng(seed),
                p_req_loss: p_req,
                p_rep_loss: p_rep,
                faults_until: fault_ms * 1000 * rate,
                n_req_lost: 0,
                n_rep_lost: 0,
                collisions: 0,
            }));
            let mut dpm = dp::DpMaster::new(vec![]);
            let mut handles = vec![];
            for i in 0..n_slaves {
                let opts = dp::PeripheralOptions {
                    ident_number: 0x1234,
                    user_parameters: Some(&[0, 0, 0]),
                    config: Some(&[0x20, 0x10]),
                    max_tsdr: 60,
                    ..Default::default()
                };
                handles.push(dpm.add(
                    dp::Peripheral::new(10 + i as u8, opts, vec![0u8; 2], vec![0u8; 1]).with_diag_buffer(vec![0u8; 32]),
                ));
            }
            let mut f = FdlActiveStation::new(
                fdl::ParametersBuilder::new(2, baud)
                    .highest_station_address(8)
                    .slot_bits(300)
                    .max_retry_limit(retry)
                    .build_verified(&dpm),
            );
            let mut phy = MasterPhy { w: w.clone(), next_tx: 0, next_byte: 0, rx: vec![], tx_end: 0 };
            f.set_online();
            dpm.enter_operate();
            let mut t = 0u64;
            let mut events: Vec<(u64, u8, dp::PeripheralEvent)> = vec![];
            while t < total_ms * 1000 {
                f.poll(Instant::from_micros(t as i64), &mut phy, &mut dpm);
                let ev = dpm.take_last_events();
                if let Some((h, e)) = ev.peripheral {
                    if e != dp::PeripheralEvent::DataExchanged {
                        events.push((t, h.address(), e));
                    }
                }
                let api: u64 = std::env::var("API").ok().and_then(|v| v.parse().ok()).unwrap_or(0);
                if api > 0 && n_slaves > 0 && rng.range(0, 9999) < api {
                    match rng.range(0, 3) {
                        0 => { f.set_offline(); }
                        1 => { f.set_online(); }
                        2 => { let h = handles[rng.range(0, n_slaves as u64 - 1) as usize]; let a = dpm.get_mut(h).address(); let na = if std::env::var_os("RESET_OTHER").is_some() { 10 + ((a - 10 + 1) % n_slaves as u8) } else { a }; dpm.get_mut(h).reset_address(na); }
                        _ => { dpm.enter_operate(); }
                    }
                }
                if !f.connectivity_state().is_online() && rng.range(0, 99) < 5 { f.set_online(); }
                if userdiag && t < fault_ms * 1000 && rng.range(0, 99) < 3 {
                    let h = handles[rng.range(0, n_slaves as u64 - 1) as usize];
                    dpm.get_mut(h).request_diagnostics();
                }
                t += rng.range(10, 40);
            }
            let running = handles.iter().map(|h| dpm.get_mut(*h).is_running()).collect::<Vec<_>>();
            // FCB discipline on the wire
            let w = w.borrow();
            let mut last: std::collections::HashMap<u8, (bool, bool, Option<u8>, Vec<u8>)> = Default::default();
            let mut viol = vec![];
            for tx in w.txs.iter().filter(|t| t.sender == 0) {
                if let Some((da, fcv, fcb, dsap)) = fc_bits(&tx.bytes) {
                    if da == 127 || (!fcv && !fcb) {
                        continue;
                    }
                    if let Some((pfcv, pfcb, pdsap, pbytes)) = last.get(&da) {
                        if fcv && *pfcv && *pfcb == fcb && *pbytes != tx.bytes {
                            viol.push(format!("t={}us da={} same fcb {} for dsap {:?} then {:?}", tx.start / rate, da, fcb, pdsap, dsap));
                        }
                    }
                    last.insert(da, (fcv, fcb, dsap, tx.bytes.clone()));
                }
            }
            (running, viol, events, w.n_req_lost, w.n_rep_lost, w.collisions)
        });
        match res {
            Ok((running, viol, events, nreq, nrep, coll)) => {
                let all = running.iter().all(|r| *r);
                if !all {
                    stuck += 1;
                }
                if !viol.is_empty() {
                    fcb_viol += 1;
                }
                if seed < 3 || (!all && stuck <= 3) || (!viol.is_empty() && fcb_viol <= 3) {
                    println!("seed {seed}: running={running:?} lost req/rep={nreq}/{nrep} coll={coll} fcbviol={} events={}", viol.len(), events.len());
                    for v in viol.iter().take(2) {
                        println!("    {v}");
                    }
                    if !all {
                        for e in events.iter().rev().take(4) {
                            println!("    ev {:?}", e);
                        }
                    }
                }
            }
            Err(e) => {
                panics += 1;
                let msg = if let Some(s) = e.downcast_ref::<String>() { s.clone() } else if let Some(s) = e.downcast_ref::<&str>() { s.to_string() } else { "?".into() };
                *pmap.entry(msg.chars().take(100).collect::<String>()).or_insert(0u64) += 1;
            }
        }
    }
    for (k, v) in &pmap { println!("{v:6} {k}"); }
    println!("TOTAL seeds={seeds} stuck={stuck} fcb_viol_runs={fcb_viol} panics={panics}");
}
